"""C10 - IA solvers: no stale derived quantity after any history of the public setters; ownership."""
from __future__ import annotations

import ast

from ..dsf import analyse_class, foreign_writers
from ..families import IA
from ..report import Ctx
from ..selftest import Mutant

BASE = 'pyphysim/ia/iabase.py'
ALGS = 'pyphysim/ia/algorithms.py'

EXPLANATION = (
    'Decides the last sentence of C10 ("these relations keep holding after any later change of the power or of '
    'the precoders/filters through the public setters - no stale derived quantities") as a structural clause. '
    'C10.a (DSF): for IASolverBaseClass and the five concrete solvers, every public method/property/constructor '
    're-establishes "none of _full_F, _full_W_H, _full_W and the dual pair _W/_W_H is stale w.r.t. _F, _P and each '
    'other" (abstract interpretation, lattice NONE<CLEAN<DIRTY, receiver-sensitive, dict-dispatch resolved). '
    'C10.b (ownership): the only writers of solver state from outside the class hierarchy are the two frozen '
    'stream-selection wrappers. Not decided: unit norms, power budget, alignment, monotone leakage (numeric).'
    ' General rules also applied here (see DESIGN 10.5): validate-before-commit (no `raise` reachable after the object was already changed in a public mutator); a position in a filtered list is never used as a per-user index; a per-user quantity bound in one loop is never read by a later loop (C10.f).'
    ' C10.i: energies are never sums of plain squares of (complex) arrays. C10.j: a validated array argument is stored as a private copy.')

PROTECTED = {'_F', '_full_F', '_W', '_W_H', '_full_W_H', '_full_W', '_P', '_Ns'}
FROZEN_FOREIGN = {
    'BruteForceStreamIASolver.solve': 'wrapper copies the best inner solution into its own reporting solver object',
    'GreedStreamIASolver.solve': 'wrapper drops one stream and re-solves; edits the inner solver between solves',
    'GreedStreamIASolver._find_index_stream_with_worst_sinr': 'reads only',
}


def check(ctx: Ctx) -> None:
    ctx.assume('E1 assumptions; the channel object is an external dependency (changing it after solve is outside '
               'the property); exceptional exits out of scope; one keyed suppression '
               '(IterativeIASolverBaseClass._solve_finalize, _full_F) - see DESIGN.md')
    from ..commit import check_family
    check_family(ctx, 'C10.d', ['IASolverBaseClass'], floor=5)
    from ..idioms import check_filtered_positions
    check_filtered_positions(ctx, 'C10.e', [BASE, ALGS], floor=1)
    from ..idioms import check_per_iteration_leaks
    check_per_iteration_leaks(ctx, 'C10.f', [BASE, ALGS], floor=3)
    from ..idioms import check_accumulators_initialised
    check_accumulators_initialised(ctx, 'C10.g', [BASE, ALGS], floor=2)
    from ..idioms import check_energy_uses_modulus
    check_energy_uses_modulus(ctx, 'C10.i', [BASE, ALGS], floor=50)
    from ..idioms import check_validated_arrays_copied
    check_validated_arrays_copied(ctx, 'C10.j', [BASE, ALGS], floor=3)
    from ..idioms import check_no_per_axis_normalisation
    check_no_per_axis_normalisation(ctx, 'C10.k', [BASE, ALGS], floor=4)
    # ------------------------------------------------------------------ C10.l
    ctx.rule('C10.l', 'the closed-form solver keeps exactly Ns[0] eigenvectors for the first precoder (its column count is the stream count '
                      'every other quantity is sized with), as an identity of terms', floor=1)
    from ..model import norm, walk_no_nested
    uf = ctx.model.func(ALGS, 'ClosedFormIASolver._updateF')
    ctx.instance('C10.l', uf.qualname)
    from .. import terms as T_
    loc_ = T_.local_terms(ctx.model, uf)
    env_ = T_.Env(ctx.model, uf)
    env_.floordiv = True
    env_.vars.update(loc_)
    cuts = [n for n in walk_no_nested(uf.node) if isinstance(n, ast.Assign) and len(n.targets) == 1 and isinstance(n.value, ast.Subscript)
            and isinstance(n.value.slice, ast.Tuple) and len(n.value.slice.elts) == 2 and isinstance(n.value.slice.elts[1], ast.Slice)
            and n.value.slice.elts[1].upper is not None and isinstance(n.value.slice.elts[0], ast.Slice) and n.value.slice.elts[0].upper is None]
    if len(cuts) != 1:
        ctx.error('C10.l: ClosedFormIASolver._updateF no longer cuts the first precoder out of the eigenvectors with one column slice (cannot tell)')
    sl_ = cuts[0].value.slice.elts[1]
    try:
        width = T_.from_ast(sl_.upper, env_) - (T_.from_ast(sl_.lower, env_) if sl_.lower is not None else T_.Term.const(0))
    except T_.Unknown as e_:
        ctx.error('C10.l: the width of `%s` is not a formula (%s): cannot tell' % (norm(cuts[0].value)[:50], e_))
    want_w = T_.parse_spec('self.Ns[0]')
    okw = width == want_w or width == T_.substitute(want_w, {'self.Ns': T_.Term.sym('self._Ns')})
    ctx.obligation('C10.l', uf.qualname, okw, {'slice': norm(cuts[0].value)[:60], 'width': width.pretty()})
    if not okw:
        ctx.violation('C10.l', uf.qualname, 'the first precoder is `%s`, %s columns wide instead of Ns[0]: with fewer streams than that the '
                      'precoders no longer match the stream counts and the receive filters' % (norm(cuts[0].value)[:50], width.pretty()),
                      uf.path, cuts[0].lineno, operand='precoder-width')
    ctx.rule('C10.a', 'DSF: no derived solver quantity is DIRTY at a normal exit of any public entry point', floor=100)
    for cname in IA.classes:
        analyse_class(ctx, 'C10.a', IA, cname)
    ctx.rule('C10.b', 'solver state is written from outside the class hierarchy only by the frozen wrappers', floor=1)
    _check_power_applied(ctx)
    _check_power_degrees(ctx)
    for fn, attr, line, recv in foreign_writers(ctx.model, PROTECTED, IA.classes + ['IterativeIASolverBaseClass']):
        q = fn.qualname
        ctx.instance('C10.b', '%s:%s' % (q, attr))
        ok = q in FROZEN_FOREIGN
        ctx.obligation('C10.b', '%s:%s' % (q, attr), ok, {'writer': q, 'receiver': recv, 'attr': attr})
        if not ok:
            ctx.violation('C10.b', q, 'writes solver state %s.%s from outside the IA solver hierarchy (not one of the '
                          'frozen wrappers %s): derived quantities of that solver can no longer be kept fresh by '
                          'its own setters' % (recv, attr, sorted(FROZEN_FOREIGN)), fn.path, line, operand=attr)


def _check_power_degrees(ctx: Ctx) -> None:
    """C10.h: whatever is stored into the power-scaled precoder scales like the square root of the power."""
    from fractions import Fraction
    from ..astutil import power_degree, sequential_defs, stmts_in_order
    from ..model import is_self_attr, norm, walk_no_nested
    M = ctx.model
    ctx.rule('C10.h', 'dimensional analysis in the transmit power: F (unit norm) has degree 0, full_F = F sqrt(P) degree 1/2, P degree 1; every value '
                      'stored into _full_F whose degree can be computed has degree 1/2 (a norm SQUARED used as a scale, a forgotten or doubled '
                      'square root give 1 or 0)', floor=2)
    DEG = {'_F': 0, 'F': 0, '_full_F': Fraction(1, 2), 'full_F': Fraction(1, 2), '_P': 1, 'P': 1}
    for path in (BASE, ALGS):
        mod = M.module(path)
        for c in mod.classes.values():
            if c.name not in IA.classes + ['IterativeIASolverBaseClass']:
                continue
            for fn in list(c.methods.values()) + list(c.getters.values()) + list(c.setters.values()):
                sn = fn.self_name
                if sn is None:
                    continue

                def deg_of(e, sn=sn):
                    a = is_self_attr(e, sn) if isinstance(e, ast.Attribute) else None
                    return DEG.get(a) if a is not None else None
                for body_owner in ast.walk(fn.node):
                    for fld in ('body', 'orelse'):
                        body = getattr(body_owner, fld, None)
                        if not (isinstance(body, list) and body and isinstance(body[0], ast.stmt)):
                            continue
                        for i, st in enumerate(body):
                            if not isinstance(st, ast.Assign) or len(st.targets) != 1:
                                continue
                            t = st.targets[0]
                            root = t.value if isinstance(t, ast.Subscript) else t
                            if is_self_attr(root, sn) != '_full_F' or (isinstance(st.value, ast.Constant) and st.value.value is None):
                                continue
                            construct = '%s:store@%s' % (fn.qualname, norm(t)[:30])
                            ctx.instance('C10.h', construct)
                            allst = stmts_in_order(fn)
                            defs = sequential_defs(allst[:allst.index(st)])        # everything that precedes the store, in source order
                            d = power_degree(st.value, deg_of, defs)
                            ok = d is None or d == Fraction(1, 2)
                            ctx.obligation('C10.h', construct, ok, {'value': norm(st.value)[:80], 'degree_in_power': str(d) if d is not None else 'no verdict'},
                                           nontrivial=d is not None)
                            if not ok:
                                ctx.violation('C10.h', fn.qualname, 'the value `%s` stored into the power-scaled precoder has degree %s in the transmit power, '
                                              'not 1/2: the user then transmits with P^%s instead of P' % (norm(st.value)[:70], d, 2 * d),
                                              fn.path, st.lineno, operand='power-degree')


def _check_power_applied(ctx: Ctx) -> None:
    from ..dsf import must_store_on_all_paths
    M = ctx.model
    ctx.rule('C10.c', 'solve(Ns, P) stores its power argument through the P setter on every normal path (all initialisers)', floor=5)
    base = M.cls('IASolverBaseClass')
    for c in M.subclasses(base):
        fn = M.lookup_method(c, 'solve')
        if fn is None or 'P' not in fn.params or any(isinstance(n, ast.Raise) for n in fn.node.body[-1:]):
            continue
        if c.name in ('IterativeIASolverBaseClass',):
            continue
        construct = '%s.solve' % c.name
        ctx.instance('C10.c', construct)
        ok, f = must_store_on_all_paths(M, c, 'solve', 'P')
        ctx.obligation('C10.c', construct, ok, {'defined_in': f.qualname if f else None})
        if not ok:
            ctx.violation('C10.c', f.qualname, 'a normal path of solve() (receiver class %s) never assigns self.P: the power passed to '
                          'solve is silently ignored there and the previously stored power is used' % c.name, f.path, f.lineno,
                          operand='P:' + c.name)


MUTANTS = [
    Mutant('precoder-energy-without-modulus', BASE, 'IASolverBaseClass.set_precoders',
           [('replace', "np.linalg.norm(full_F[k], 'fro')", 'np.sqrt(np.sum(full_F[k] ** 2))')], r'C10\.i:IASolverBaseClass\.set_precoders:plain-square'),
    Mutant('benign-precoder-energy-with-modulus', BASE, 'IASolverBaseClass.set_precoders',
           [('replace', "np.linalg.norm(full_F[k], 'fro')", 'np.sqrt(np.sum(np.abs(full_F[k]) ** 2))')], None, benign=True),
    Mutant('power-vector-kept-by-reference', BASE, 'IASolverBaseClass.P@setter',
           [('replace', 'value = np.array(value)', 'value = np.asarray(value)'), ('replace', 'self._P = np.array(value)', 'self._P = value')],
           r'C10\.j:IASolverBaseClass\.P@setter:by-reference'),
    Mutant('full-precoder-scaled-by-the-power', BASE, 'IASolverBaseClass.full_F@getter',
           [('replace', 'self._F * np.sqrt(self.P)', 'self._F * self.P')], r'C10\.h:IASolverBaseClass\.full_F@getter:power-degree'),
    Mutant('benign-full-precoder-factors-swapped', BASE, 'IASolverBaseClass.full_F@getter',
           [('replace', 'self._F * np.sqrt(self.P)', 'np.sqrt(self.P) * self._F')], None, benign=True),
    Mutant('reduced-precoder-restored-with-the-squared-norm', ALGS, 'IterativeIASolverBaseClass._solve_finalize',
           [('replace', "original_norm = np.linalg.norm(self._full_F[k], 'fro')", "original_norm = np.linalg.norm(self._full_F[k], 'fro') ** 2")],
           r'C10\.h:IterativeIASolverBaseClass\._solve_finalize:power-degree'),
    Mutant('noise-identity-sized-by-the-leaked-loop-index', ALGS, 'MMSEIASolver._calc_Uk',
           [('replace', 'np.eye(self.Nr[k])', 'np.eye(self.Nr[i])')], r'C10\.f:MMSEIASolver\._calc_Uk:after-loop:i'),
    Mutant('per-user-count-leaks-into-later-loop', ALGS, 'IterativeIASolverBaseClass._solve_finalize',
           [('regex_all', r'for \(?k, n\)? in zip\(mod_users, num_significant_sing_values\):', 'for k in mod_users:')],
           r'C10\.f:IterativeIASolverBaseClass\._solve_finalize:leak:n'),
    Mutant('P-stored-before-positivity-check', BASE, 'IASolverBaseClass.P@setter',
           [('replace', '    value = np.array(value)\n', '    value = np.array(value)\n        self._P = value\n')], r'C10\.d:IASolverBaseClass\.P@setter'),
    Mutant('revert-fix-clear-before-validation', BASE, 'IASolverBaseClass.set_receive_filters',
           [('regex', r'(    if W is None and W_H is None:)', r'    self._clear_receive_filter()\n\1')], r'C10\.d:IASolverBaseClass\.set_receive_filters'),
    Mutant('drop-clear-receive-in-minleakage-updateW', ALGS, 'MinLeakageIASolver._updateW',
           [('delete', r'self\._clear_receive_filter\(\)')], r'C10\.a:.*solve:_(full_)?W'),
    Mutant('drop-clear-precoder-in-maxsinr-updateF', ALGS, 'MaxSinrIASolver._updateF',
           [('delete', r'self\._clear_precoder_filter\(\)')], r'C10\.a:.*:_full_F'),
    Mutant('drop-clear-in-set_receive_filters', BASE, 'IASolverBaseClass.set_receive_filters',
           [('delete', r'self\._clear_receive_filter\(\)')], r'C10\.a:IASolverBaseClass\.set_receive_filters:_full_W'),
    Mutant('revert-fix-a860009-P-setter', BASE, 'IASolverBaseClass.P@setter',
           [('delete', r'self\._full_F = None'), ('delete', r'self\._full_W_H = None'), ('delete', r'self\._full_W = None')],
           r'C10\.a:IASolverBaseClass\.P@setter:_full_F'),
    Mutant('revert-fix-a860009-clear-precoder', BASE, 'IASolverBaseClass._clear_precoder_filter',
           [('delete', r'self\._full_W_H = None'), ('delete', r'self\._full_W = None')],
           r'C10\.a:IASolverBaseClass\.(set_precoders|randomizeF):_full_W_H'),
    Mutant('foreign-writer', 'pyphysim/comm/blockdiagonalization.py', 'BlockDiagonalizer.block_diagonalize',
           [('regex', r'\n', '\n    solver._F = None\n')], r'C10\.b:BlockDiagonalizer\.block_diagonalize'),
    Mutant('benign-inline-clear-precoder', BASE, 'IASolverBaseClass.randomizeF',
           [('replace', 'self._clear_precoder_filter()', 'self._F = None\n    self._full_F = None')], None, benign=True),
]

ENGINES = ['model', 'dsf']
TECHNIQUE = ('static analysis: derived-state freshness dataflow over all public entry points of the solver classes '
             '+ who-may-write (ownership) rule over the package')


def sweep(overlay):
    from ..dsf import dsf_sweep
    return dsf_sweep(overlay, IA, 'C10')
