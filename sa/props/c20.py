"""C20 - subspace and linear-algebra kernels: identities of scalar terms (E9) and of matrix terms (E10)."""
from __future__ import annotations

import ast

from ..model import norm
from .. import matterms as X
from .. import terms as T
from ..report import Ctx
from ..selftest import Mutant

CONV = 'pyphysim/util/conversion.py'
PROJ = 'pyphysim/subspace/projections.py'
METR = 'pyphysim/subspace/metrics.py'
MISC = 'pyphysim/util/misc.py'

EXPLANATION = (
    'Decides the ALGEBRAIC content of four clauses of C20 as identities of terms extracted from the source, for all '
    'arguments at once; nothing is evaluated. C20.a: dB/linear/dBm and Eb/N0 conversions are mutually inverse (scalar '
    'terms: polynomial normal form + pow/sqrt + log10(10**a)=a, 10**log10(a)=a). C20.b (matrix terms, E10): with P = '
    'calcProjectionMatrix(A) as written in the source and A of full column rank: P^H = P, P P = P, P A = A, P + oP = I, '
    'P oP = 0, project + oProject is the identity map, and reflect(reflect(M)) = M. C20.c: the two projector-based chordal '
    'distance routines take the Frobenius norm of the SAME matrix (P(M) = Q Q^H under the QR contract) with the same '
    '1/sqrt(2), are symmetric, vanish for equal arguments, and are invariant under M -> M B (B invertible) and '
    'M -> U M (U unitary). C20.d: the whitening matrix W of a Hermitian positive definite C satisfies W^H C W = I (eigen '
    'decomposition contract with orthonormal eigenvectors). An operator the normalisers do not know is an ANALYSIS-ERROR, never '
    'a violation. Not decided: the principal-angle route (a theorem, not a rewriting), the GMD sweep, Sherman-Morrison and '
    'the eigen/singular selectors as numbers, floating-point error and conditioning.'
    ' General rules also applied here (see DESIGN 10.5): input immutability (no in-place modification of an array argument, alias- and view-aware).'
    ' C20.i: singular values are never multiplied elementwise with V^H without a new axis (columns instead of rows).'
    ' C20.j: the GMD sweep sets its no-rotation flag in every weak ordering of the three compared quantities in which the two diagonal entries are equal (no 0/0 in the Givens rotation; finite enumeration of orderings, a necessary condition only).')

PAIRS = [('linear2dB', 'dB2Linear'), ('dB2Linear', 'linear2dB'), ('linear2dBm', 'dBm2Linear'),
         ('dBm2Linear', 'linear2dBm'), ('EbN0_dB_to_SNR_dB', 'SNR_dB_to_EbN0_dB'),
         ('SNR_dB_to_EbN0_dB', 'EbN0_dB_to_SNR_dB')]
INLINE = {'dB2Linear', 'linear2dB', 'dBm2Linear', 'linear2dBm'}


def check(ctx: Ctx) -> None:
    M = ctx.model
    # cheap structural rule first: a definite violation must not be hidden behind a later "cannot tell"
    from ..idioms import check_input_immutability, public_api
    fns = public_api(ctx.model, [CONV, METR, PROJ]) + public_api(ctx.model, [MISC], include={
        'gmd', 'peig', 'leig', 'least_right_singular_vectors', 'update_inv_sum_diag', 'get_principal_component_matrix',
        'calc_decorrelation_matrix', 'calc_whitening_matrix'})
    check_input_immutability(ctx, 'C20.e', fns, floor=25)
    ctx.assume('real arithmetic on positive arguments (the identity is algebraic; floating-point rounding is not '
               'modelled); np.log10/math.log10 and pow/np.power/** denote the same operators')
    ctx.rule('C20.a', 'compositions of the unit conversions normalise to the identity term', floor=6)
    for f, g in PAIRS:
        construct = '%s(%s(x))' % (f, g)
        ctx.instance('C20.a', construct)
        try:
            pf, tf = T.function_term(M, M.func(CONV, f), INLINE)
            pg, tg = T.function_term(M, M.func(CONV, g), INLINE)
        except T.Unknown as e:
            ctx.error('C20.a: cannot normalise %s / %s: %s' % (f, g, e))
        sub = {pf[0]: tg}
        # second parameters (bits per symbol) are the same symbol on both sides
        for a, b in zip(pf[1:], pg[1:]):
            sub[a] = T.Term.sym(b)
        comp = T.substitute(tf, sub)
        ok = comp == T.Term.sym(pg[0])
        ctx.obligation('C20.a', construct, ok, {'outer': tf.pretty(), 'inner': tg.pretty(), 'composition': comp.pretty(),
                                                'expected': pg[0]})
        if not ok:
            ctx.violation('C20.a', f, '%s(%s(x)) normalises to `%s`, not to x: the two conversions are not inverse of '
                          'each other (outer: %s ; inner: %s)' % (f, g, comp.pretty(), tf.pretty(), tg.pretty()),
                          CONV, M.func(CONV, f).lineno, operand='o:' + g)
    check_projection(ctx)
    check_chordal(ctx)
    check_whitening(ctx)
    check_gmd_bookkeeping(ctx)
    check_gmd_rotation_guard(ctx)
    from ..idioms import check_mean_counts
    check_mean_counts(ctx, 'C20.g', [MISC, PROJ], floor=20)
    from ..idioms import check_no_alias_inplace
    check_no_alias_inplace(ctx, 'C20.h', [PROJ], floor=5)
    from ..idioms import check_svd_scalings
    check_svd_scalings(ctx, 'C20.i', [MISC, PROJ, METR, CONV, 'pyphysim/mimo/mimo.py', 'pyphysim/comm/blockdiagonalization.py', 'pyphysim/ia/algorithms.py', 'pyphysim/ia/iabase.py'], floor=4)


def _mat(ctx: Ctx, it: X.MatInterp, fn, args, what: str) -> X.Val:
    try:
        return it.call_function(fn, args, {})
    except X.Unknown as e:
        ctx.error('C20: cannot extract the matrix term of %s (%s): cannot tell' % (what, e))


def _prove(ctx: Ctx, rule: str, construct: str, fn, lhs: X.MT, rhs: X.MT, cx: X.Ctx, why: str) -> None:
    ctx.instance(rule, construct)
    ok, l, r = X.proves(lhs, rhs, cx)
    ctx.obligation(rule, construct, ok, {'lhs': l.pretty(), 'rhs': r.pretty(), 'contracts': sorted(set(cx.notes))})
    if not ok:
        ctx.violation(rule, fn.qualname, '%s: `%s` != `%s`' % (why, l.pretty(), r.pretty()), fn.path, fn.lineno,
                      operand=construct.split(':', 1)[-1])


def check_projection(ctx: Ctx) -> None:
    M = ctx.model
    ctx.rule('C20.b', 'projection identities proven from the formulas in the source (matrix terms)', floor=9)
    ctx.assume('exact arithmetic; A has full column rank (A^H A invertible); B square invertible; U unitary')
    cls = M.cls('Projection')
    cx = X.Ctx()
    it = X.MatInterp(M, cx, cls)
    A, Mx = X.MT.sym('A'), X.MT.sym('M')
    fp, fo = M.func(PROJ, 'Projection.calcProjectionMatrix'), M.func(PROJ, 'Projection.calcOrthogonalProjectionMatrix')
    P = _mat(ctx, it, fp, [X.Val('mat', A)], 'calcProjectionMatrix')
    oP = _mat(ctx, it, fo, [X.Val('mat', A)], 'calcOrthogonalProjectionMatrix')
    if P.kind != 'mat' or oP.kind != 'mat':
        ctx.error('C20.b: the projection matrices are not matrix expressions')
    P, oP = P.v, oP.v
    _prove(ctx, 'C20.b', 'calcProjectionMatrix:P^H = P', fp, X.adjoint(P, cx), P, cx, 'the projection matrix is not Hermitian')
    _prove(ctx, 'C20.b', 'calcProjectionMatrix:P P = P', fp, X.mul(P, P, cx), P, cx, 'the projection matrix is not idempotent')
    _prove(ctx, 'C20.b', 'calcProjectionMatrix:P A = A', fp, X.mul(P, A, cx), A, cx, 'projecting the matrix onto its own column space changes it')
    _prove(ctx, 'C20.b', 'calcOrthogonalProjectionMatrix:P + oP = I', fo, X.add(P, oP), X.MT.identity(), cx, 'the two projections are not complementary')
    _prove(ctx, 'C20.b', 'calcOrthogonalProjectionMatrix:P oP = 0', fo, X.mul(P, oP, cx), X.MT.zero(), cx, 'the two projections are not orthogonal to each other')
    # the object: Q / oQ computed in the constructor, project / oProject / reflect
    init = M.func(PROJ, 'Projection.__init__')
    _mat(ctx, it, init, [X.Val('mat', A)], 'Projection.__init__')
    meth = {n: M.func(PROJ, 'Projection.' + n) for n in ('project', 'oProject', 'reflect')}
    pr = _mat(ctx, it, meth['project'], [X.Val('mat', Mx)], 'project')
    op = _mat(ctx, it, meth['oProject'], [X.Val('mat', Mx)], 'oProject')
    rf = _mat(ctx, it, meth['reflect'], [X.Val('mat', Mx)], 'reflect')
    if not all(v.kind == 'mat' for v in (pr, op, rf)):
        ctx.error('C20.b: project/oProject/reflect do not return matrix expressions')
    rr = _mat(ctx, it, meth['reflect'], [X.Val('mat', rf.v)], 'reflect o reflect')
    _prove(ctx, 'C20.b', 'Projection.project:= P M', meth['project'], pr.v, X.mul(P, Mx, cx), cx, 'project(M) is not P M for the projection of the constructor argument')
    _prove(ctx, 'C20.b', 'Projection.oProject:project + oProject = identity', meth['oProject'], X.add(pr.v, op.v), Mx, cx,
           'project(M) + oProject(M) is not M')
    _prove(ctx, 'C20.b', 'Projection.reflect:reflect twice = identity', meth['reflect'], rr.v, Mx, cx, 'reflecting twice is not the identity')
    _prove(ctx, 'C20.b', 'Projection.reflect:fixes the complement', meth['reflect'], X.mul(oP, rf.v, cx), X.mul(oP, Mx, cx), cx,
           'the reflection changes the component orthogonal to the subspace')


def _norm_parts(ctx: Ctx, v: X.Val, cx: X.Ctx, what: str):
    """(coefficient, matrix) if v is  coefficient * ||matrix||_F."""
    if v.kind != 'scal':
        ctx.error('C20.c: %s does not return a scalar expression' % what)
    s = v.v.single()
    if s is None:
        if not v.v.terms:
            return T.Term.const(0), X.MT.zero()
        ctx.error('C20.c: %s is not a multiple of one Frobenius norm: %s' % (what, v.v.pretty()))
    mono, c = s
    norms = [(a, e) for a, e in mono if a[0] == 'sym' and a[1] in cx.norm_args]
    if len(norms) != 1 or norms[0][1] != 1:
        ctx.error('C20.c: %s is not a multiple of one Frobenius norm: %s' % (what, v.v.pretty()))
    rest = T.Term({tuple(x for x in mono if x[0] != norms[0][0]): c})
    return rest, cx.norm_args[norms[0][0][1]]


def check_chordal(ctx: Ctx) -> None:
    M = ctx.model
    ctx.rule('C20.c', 'projector-based chordal distances: same matrix under the QR contract, same normaliser, symmetric, zero on equal '
                      'arguments, invariant under change of basis and unitary rotation', floor=6)
    f1, f2 = M.func(METR, 'calc_chordal_distance'), M.func(METR, 'calc_chordal_distance_2')
    cx = X.Ctx()
    it = X.MatInterp(M, cx, None)
    M1, M2 = X.MT.sym('M1'), X.MT.sym('M2')
    cx.invertible |= {'B1', 'B2'}
    cx.ortho_cols.add('Urot')
    cx.ortho_rows.add('Urot')
    half = T.t_pow(T.Term.const(2), T.Term.const(T.Fraction(-1, 2)))

    def dist(fn, a, b, what):
        return _norm_parts(ctx, _mat(ctx, it, fn, [X.Val('mat', a), X.Val('mat', b)], what), cx, what)
    c1, X1 = dist(f1, M1, M2, 'calc_chordal_distance')
    c2, X2 = dist(f2, M1, M2, 'calc_chordal_distance_2')
    for fn, c, name in ((f1, c1, 'calc_chordal_distance'), (f2, c2, 'calc_chordal_distance_2')):
        construct = '%s:normaliser' % name
        ctx.instance('C20.c', construct)
        ok = c == half
        ctx.obligation('C20.c', construct, ok, {'coefficient': c.pretty(), 'expected': half.pretty()})
        if not ok:
            ctx.violation('C20.c', fn.qualname, 'the norm of the projector difference is scaled by `%s`, not by 1/sqrt(2)' % c.pretty(),
                          fn.path, fn.lineno, operand='normaliser')
    # agreement: the same matrix (up to sign) once the QR contract is applied
    ok, l, r = X.proves(X1, X2, cx)
    if not ok:
        ok, l, r = X.proves(X1, X.neg(X2), cx)
    ctx.instance('C20.c', 'calc_chordal_distance/calc_chordal_distance_2:agree')
    ctx.obligation('C20.c', 'calc_chordal_distance/calc_chordal_distance_2:agree', ok, {'first': l.pretty(), 'second': r.pretty(),
                                                                                       'contracts': sorted(set(cx.notes))})
    if not ok:
        ctx.violation('C20.c', f2.qualname, 'the two routines take the norm of different matrices: `%s` vs `%s`' % (l.pretty(), r.pretty()),
                      f2.path, f2.lineno, operand='agree')
    # the routine that is written with explicit projectors (no factorisation of its arguments) carries the invariances
    explicit = [(fn, n) for fn, n in ((f1, 'calc_chordal_distance'), (f2, 'calc_chordal_distance_2'))
                if not any(isinstance(c, ast.Call) and norm(c.func).endswith('qr') for c in ast.walk(fn.node))]
    if not explicit:
        ctx.error('C20.c: neither chordal-distance routine is written with explicit projectors (cannot tell)')
    for fn, name in [(f1, 'calc_chordal_distance'), (f2, 'calc_chordal_distance_2')]:
        # symmetry and zero on equal arguments hold for both spellings
        cs, Xs = dist(fn, M2, M1, name + ' (swapped)')
        c0, X0 = dist(fn, M1, M1, name + ' (equal arguments)')
        ca, Xa = dist(fn, M1, M2, name)
        construct = '%s:symmetric' % name
        ctx.instance('C20.c', construct)
        ok = X.proves(Xs, Xa, cx)[0] or X.proves(Xs, X.neg(Xa), cx)[0]
        ctx.obligation('C20.c', construct, ok, {'d(a,b)': Xa.pretty(), 'd(b,a)': Xs.pretty()})
        if not ok:
            ctx.violation('C20.c', fn.qualname, 'not symmetric in its arguments', fn.path, fn.lineno, operand='symmetric')
        construct = '%s:zero on equal arguments' % name
        ctx.instance('C20.c', construct)
        ok = not X0.terms
        ctx.obligation('C20.c', construct, ok, {'matrix': X0.pretty()})
        if not ok:
            ctx.violation('C20.c', fn.qualname, 'does not vanish for equal arguments: ||%s||' % X0.pretty(), fn.path, fn.lineno, operand='zero')
    for fn, name in explicit:
        ca, Xa = dist(fn, M1, M2, name)
        cb, Xb = dist(fn, X.mul(M1, X.MT.sym('B1'), cx), X.mul(M2, X.MT.sym('B2'), cx), name + ' (change of basis)')
        _prove(ctx, 'C20.c', '%s:invariant under change of basis' % name, fn, Xb, Xa, cx, 'the distance depends on the basis chosen for the subspaces')
        U = X.MT.sym('Urot')
        cu, Xu = dist(fn, X.mul(U, M1, cx), X.mul(U, M2, cx), name + ' (unitary rotation)')
        _prove(ctx, 'C20.c', '%s:invariant under a common unitary rotation' % name, fn, Xu, Xa, cx,
               'the distance changes under a common unitary rotation')


def check_whitening(ctx: Ctx) -> None:
    M = ctx.model
    ctx.rule('C20.d', 'the whitening matrix turns the covariance into the identity (matrix terms, eigen-decomposition contract)', floor=1)
    fn = M.func(MISC, 'calc_whitening_matrix')
    cx = X.Ctx()
    it = X.MatInterp(M, cx, None)
    C = X.MT.sym('C')
    W = _mat(ctx, it, fn, [X.Val('mat', C)], 'calc_whitening_matrix')
    if W.kind != 'mat':
        ctx.error('C20.d: calc_whitening_matrix does not return a matrix expression')
    _prove(ctx, 'C20.d', 'calc_whitening_matrix:W^H C W = I', fn, X.mul(X.mul(X.adjoint(W.v, cx), C, cx), W.v, cx), X.MT.identity(), cx,
           'the whitened covariance is not the identity')


def check_gmd_bookkeeping(ctx: Ctx, rule: str = 'C20.f') -> None:
    """%s: the GMD sweep keeps its permutation and the inverse permutation mutually inverse (paired update)."""
    from ..astutil import stmts_in_order
    from ..model import walk_no_nested
    M = ctx.model
    ctx.rule(rule, 'gmd(): the location permutation and its inverse are updated as a pair - `j = inv[a]; perm[j] = b` is accompanied by '
                      '`inv[b] = j` in the same block (otherwise the inverse goes stale after the first repeated swap, from 5 singular values on)',
             floor=1)
    fn = M.func(MISC, 'gmd')
    ctx.instance(rule, 'gmd')
    ident = {}
    for n in walk_no_nested(fn.node):
        if isinstance(n, ast.Assign) and len(n.targets) == 1 and isinstance(n.targets[0], ast.Name):
            v = norm(n.value).replace(' ', '')
            if v.startswith('np.r_[0:') or v.startswith('np.arange(') or v.startswith('list(range('):
                ident[n.targets[0].id] = v
    perms = sorted(ident)
    if len(perms) == 1:
        # recognisably wrong: only the rank -> location array is kept, and after the entries at locations a and b of the diagonal were
        # exchanged it is updated AT INDEX a, i.e. it assumes that the entry that sat at location a has rank a (true only until the first
        # exchange touches that location; from 5 singular values on it need not be)
        pm = perms[0]
        for blk_owner in ast.walk(fn.node):
            for fld in ('body', 'orelse'):
                body = getattr(blk_owner, fld, None)
                if not (isinstance(body, list) and body and isinstance(body[0], ast.stmt)):
                    continue
                # an exchange d[a] <-> d[b] in this block
                stores = [(norm(st.targets[0].value), norm(st.targets[0].slice), norm(st.value)) for st in body
                          if isinstance(st, ast.Assign) and len(st.targets) == 1 and isinstance(st.targets[0], ast.Subscript)]
                swapped = set()
                for arr, idx, val in stores:
                    for arr2, idx2, val2 in stores:
                        if arr == arr2 and arr != pm and idx != idx2 and val == '%s[%s]' % (arr, idx2):
                            swapped |= {idx, idx2}
                for st in body:
                    if isinstance(st, ast.Assign) and len(st.targets) == 1 and isinstance(st.targets[0], ast.Subscript) \
                            and norm(st.targets[0].value) == pm and norm(st.targets[0].slice) in swapped and norm(st.value) in swapped \
                            and norm(st.value) != norm(st.targets[0].slice):
                        ctx.obligation(rule, 'gmd', False, {'permutation': pm, 'update': norm(st), 'exchanged_locations': sorted(swapped)})
                        ctx.violation(rule, 'gmd', 'after the diagonal entries at locations %s were exchanged, `%s` updates the rank -> location array at '
                                      'INDEX %s: that assumes the entry which sat at location %s has rank %s - true only until an earlier exchange '
                                      'touched that location (Q R P^H then no longer reconstructs the matrix, from 5 singular values on)'
                                      % (sorted(swapped), norm(st), norm(st.targets[0].slice), norm(st.targets[0].slice), norm(st.targets[0].slice)),
                                      fn.path, st.lineno, operand='paired-update')
                        return
    if len(perms) < 2:
        ctx.error(rule + ': gmd no longer keeps a permutation and its inverse as two index arrays (%s): cannot tell' % perms)
    # blocks: statement lists
    found, broken = [], []
    for blk_owner in ast.walk(fn.node):
        for fld in ('body', 'orelse'):
            body = getattr(blk_owner, fld, None)
            if not (isinstance(body, list) and body and isinstance(body[0], ast.stmt)):
                continue
            # `a, b = x, y` counts as the two stores `a = x`, `b = y` (only targets and value texts matter for the pairing)
            flat = []
            for st in body:
                if isinstance(st, ast.Assign) and len(st.targets) == 1 and isinstance(st.targets[0], ast.Tuple) and isinstance(st.value, ast.Tuple) \
                        and len(st.targets[0].elts) == len(st.value.elts) and not any(isinstance(e, ast.Starred) for e in st.targets[0].elts):
                    for te, ve in zip(st.targets[0].elts, st.value.elts):
                        flat.append(ast.copy_location(ast.Assign(targets=[te], value=ve), st))
                else:
                    flat.append(st)
            body = flat
            defs = {}
            for st in body:
                if isinstance(st, ast.Assign) and len(st.targets) == 1:
                    t, v = st.targets[0], st.value
                    if isinstance(t, ast.Name) and isinstance(v, ast.Subscript) and isinstance(v.value, ast.Name) and v.value.id in ident:
                        defs[t.id] = (v.value.id, norm(v.slice))            # j = inv[a]
            for st in body:
                if isinstance(st, ast.Assign) and len(st.targets) == 1 and isinstance(st.targets[0], ast.Subscript):
                    t = st.targets[0]
                    if isinstance(t.value, ast.Name) and t.value.id in ident and isinstance(t.slice, ast.Name) and t.slice.id in defs \
                            and defs[t.slice.id][0] != t.value.id:
                        X, j, b = t.value.id, t.slice.id, norm(st.value)      # X[j] = b  with  j = Y[a]
                        Y = defs[j][0]
                        partner = [s2 for s2 in body if isinstance(s2, ast.Assign) and len(s2.targets) == 1 and isinstance(s2.targets[0], ast.Subscript)
                                   and isinstance(s2.targets[0].value, ast.Name) and s2.targets[0].value.id == Y and norm(s2.value) == j]
                        if any(norm(s2.targets[0].slice) == b for s2 in partner):
                            found.append('%s[%s] = %s ; %s[%s] = %s' % (X, j, b, Y, b, j))
                        else:
                            broken.append((st, '%s[%s] = %s without %s[%s] = %s (found: %s)'
                                           % (X, j, b, Y, b, j, [norm(s2)[:30] for s2 in partner])))
    if not found and not broken:
        ctx.error(rule + ': the paired update of %s is not recognised in gmd (cannot tell)' % perms)
    ctx.obligation(rule, 'gmd', not broken, {'paired_updates': found, 'unpaired': [b[1] for b in broken]})
    for st, why in broken[:1]:
        ctx.violation(rule, 'gmd', 'permutation bookkeeping broken: %s; the inverse permutation goes stale, Q R P^H no longer reconstructs the matrix '
                      'for 5 or more singular values' % why, fn.path, st.lineno, operand='paired-update')


def check_gmd_rotation_guard(ctx: Ctx, rule: str = 'C20.j') -> None:
    """%s: on the path of the GMD sweep that computes the Givens rotation, the divisor d[k]^2 - d[i]^2 cannot vanish.

    The pair (c, s) of the sweep is c = sqrt((sigma^2 - d2^2) / (d1^2 - d2^2)) unless `flag` was set.  `flag` is decided ONLY by order
    comparisons among three quantities (the current entry, the geometric mean, the entry picked from the other end), so its value is a
    function of their weak ordering: all 13 orderings are enumerated (27 rank assignments) and `flag` must be set in each one where the two
    entries are equal - otherwise the rotation divides 0 by 0 (all singular values equal: identity, scaled unitary, permutation)."""
    import itertools
    from ..model import walk_no_nested
    M = ctx.model
    ctx.rule(rule, 'gmd(): the flag that skips the Givens rotation is set in every weak ordering of (d[k], sigma_bar, d[i]) with d[k] == d[i]; '
                   'otherwise c = sqrt((sigma_bar^2 - d[i]^2) / (d[k]^2 - d[i]^2)) is 0/0 (decided by enumerating the 27 rank assignments of '
                   'the three compared quantities: the tests look at them through order comparisons only)', floor=1)
    fn = M.func(MISC, 'gmd')
    ctx.instance(rule, 'gmd')

    def is_set_true(st, name=None):
        return isinstance(st, ast.Assign) and len(st.targets) == 1 and isinstance(st.targets[0], ast.Name) \
            and isinstance(st.value, ast.Constant) and bool(st.value.value) and (name is None or st.targets[0].id == name)

    def inner_flag(body):
        """(flag name, test) of the single `if <test>: flag = <true>` of a block, the test True when the block sets it unconditionally."""
        out = []
        for st in body:
            if is_set_true(st):
                out.append((st.targets[0].id, None))
            if isinstance(st, ast.If) and not st.orelse and len(st.body) == 1 and is_set_true(st.body[0]):
                out.append((st.body[0].targets[0].id, st.test))
        return out

    cands = []
    for n in walk_no_nested(fn.node):
        if isinstance(n, ast.If) and n.orelse:
            a, b = inner_flag(n.body), inner_flag(n.orelse)
            if len(a) == 1 and len(b) == 1 and a[0][0] == b[0][0]:
                cands.append((n, a[0][0], a[0][1], b[0][1]))
    # the non-flag branch must contain a division by a difference (the rotation); otherwise the clause has nothing to guard here
    guarded = []
    for n in walk_no_nested(fn.node):
        if isinstance(n, ast.If):
            t = n.test
            neg = isinstance(t, ast.UnaryOp) and isinstance(t.op, ast.Not)
            nm = t.operand if neg else t
            if isinstance(nm, ast.Compare) and len(nm.ops) == 1 and isinstance(nm.comparators[0], ast.Constant):
                c0 = nm.comparators[0].value
                if isinstance(nm.ops[0], (ast.Eq, ast.Is)) and c0 in (0, False):
                    neg, nm = not neg, nm.left
                elif (isinstance(nm.ops[0], (ast.Eq, ast.Is)) and c0 in (1, True)) or (isinstance(nm.ops[0], (ast.NotEq, ast.IsNot)) and c0 in (0, False)):
                    nm = nm.left
            if isinstance(nm, ast.Name):
                rot = n.body if neg else n.orelse
                for st in rot:
                    for e in ast.walk(st):
                        if isinstance(e, ast.BinOp) and isinstance(e.op, ast.Div) and isinstance(e.right, ast.BinOp) and isinstance(e.right.op, ast.Sub):
                            guarded.append((nm.id, norm(e.right), st.lineno))
    cands = [c for c in cands if any(g[0] == c[1] for g in guarded)]
    if len(cands) != 1:
        ctx.error(rule + ': the two-sided selection that sets the no-rotation flag of gmd, or the division it guards, is not recognised '
                  '(%d candidates, guarded divisions %s): cannot tell' % (len(cands), guarded))
    node, flag, t_then, t_else = cands[0]
    tests = [t for t in (node.test, t_then, t_else) if t is not None]
    operands = []
    for t in tests:
        for e in ast.walk(t):
            if isinstance(e, ast.Compare):
                for o in [e.left] + list(e.comparators):
                    if norm(o) not in operands:
                        operands.append(norm(o))
    outer = [norm(o) for e in ast.walk(node.test) if isinstance(e, ast.Compare) for o in [e.left] + list(e.comparators)]
    subs = [o for o in operands if '[' in o]
    if len(operands) != 3 or len(subs) != 2 or not any(o in outer for o in subs):
        ctx.error(rule + ': the flag tests of gmd compare %s, not two diagonal entries with one threshold: cannot tell' % operands)
    dk = [o for o in subs if o in outer][0]
    di = [o for o in subs if o != dk]
    if not di:
        ctx.error(rule + ': the flag tests of gmd never look at the entry picked from the other end: cannot tell')
    di = di[0]

    class Unknown_(Exception):
        pass

    def ev(e, env):
        if e is None:
            return True
        if isinstance(e, ast.BoolOp):
            vs = [ev(v, env) for v in e.values]
            return all(vs) if isinstance(e.op, ast.And) else any(vs)
        if isinstance(e, ast.UnaryOp) and isinstance(e.op, ast.Not):
            return not ev(e.operand, env)
        if isinstance(e, ast.Compare):
            items = [e.left] + list(e.comparators)
            ok = True
            for x, op, y in zip(items, e.ops, items[1:]):
                if norm(x) not in env or norm(y) not in env:
                    raise Unknown_(norm(e))
                a, b = env[norm(x)], env[norm(y)]
                table = {ast.Lt: a < b, ast.LtE: a <= b, ast.Gt: a > b, ast.GtE: a >= b, ast.Eq: a == b, ast.NotEq: a != b}
                if type(op) not in table:
                    raise Unknown_(norm(e))
                ok = ok and table[type(op)]
            return ok
        raise Unknown_(norm(e))

    bad, seen = [], 0
    try:
        for ranks in itertools.product(range(3), repeat=3):
            env = dict(zip(operands, ranks))
            if env[dk] != env[di]:
                continue
            seen += 1
            f = ev(t_then, env) if ev(node.test, env) else ev(t_else, env)
            if not f:
                thr = [o for o in operands if o not in (dk, di)][0]
                rel = '==' if env[thr] == env[dk] else ('<' if env[dk] < env[thr] else '>')
                if '%s == %s %s %s' % (dk, di, rel, thr) not in bad:
                    bad.append('%s == %s %s %s' % (dk, di, rel, thr))
    except Unknown_ as e:
        ctx.error(rule + ': the flag test `%s` of gmd is not a pure order comparison: cannot tell' % e)
    ctx.obligation(rule, 'gmd', not bad, {'flag': flag, 'outer_test': norm(node.test), 'then_test': norm(t_then) if t_then is not None else 'True',
                                          'else_test': norm(t_else) if t_else is not None else 'True', 'compared': operands,
                                          'orderings_with_equal_entries': seen, 'unguarded': bad,
                                          'guarded_division': [g[1] for g in guarded if g[0] == flag]})
    if bad:
        ctx.violation(rule, 'gmd', 'the no-rotation flag `%s` is not set when %s: the sweep then computes c = sqrt((sigma^2 - d2^2) / (%s)) with a '
                      'zero divisor (0/0 -> nan in Q, R, P for a matrix whose singular values are all equal: identity, scaled unitary, '
                      'permutation)' % (flag, ' or '.join(bad), [g[1] for g in guarded if g[0] == flag][0]), fn.path, node.lineno,
                      operand='rotation-guard')


def check_gmd_threshold(ctx: Ctx, rule: str, caller_paths) -> None:
    """The GMD as the library uses it keeps EVERY singular value: the effective threshold is 0 (scale invariance)."""
    from ..astutil import const_value
    from ..model import walk_no_nested
    M = ctx.model
    ctx.rule(rule, 'gmd() as called by the library discards no singular value: the effective tolerance (argument or default) of every call '
                   'is 0 - an absolute positive threshold is not scale invariant (a small-gain channel loses streams)', floor=2)
    fn = M.func(MISC, 'gmd')
    a = fn.node.args
    params = [x.arg for x in a.posonlyargs + a.args]
    tol_params = [p for p in params[3:]] + [x.arg for x in a.kwonlyargs]
    # the parameter that thresholds the singular values: compared with the second parameter (S)
    S = params[1]
    thr = None
    for n in walk_no_nested(fn.node):
        if isinstance(n, ast.Compare) and len(n.ops) == 1 and isinstance(n.ops[0], (ast.GtE, ast.Gt, ast.Lt, ast.LtE)):
            sides = [n.left, n.comparators[0]]
            for x, y in (sides, sides[::-1]):
                if isinstance(x, ast.Name) and x.id == S and isinstance(y, ast.Name) and y.id in tol_params:
                    thr = y.id
    if thr is None:
        if not tol_params:
            ctx.instance(rule, 'gmd:no-threshold')
            ctx.instance(rule, 'gmd:no-threshold-parameter')
            ctx.obligation(rule, 'gmd:no-threshold', True, {'parameters': params})
            return
        ctx.error(rule + ': gmd has extra parameters %s but none is compared with the singular values `%s` directly (relative or derived '
                  'threshold): cannot tell' % (tol_params, S))
    defaults = dict(zip(reversed([x.arg for x in a.posonlyargs + a.args]), reversed(a.defaults)))
    defaults.update({k.arg: d for k, d in zip(a.kwonlyargs, a.kw_defaults) if d is not None})
    pos = params.index(thr) if thr in params else None
    for path in caller_paths:
        mod = M.module(path)
        fns = [f for c in mod.classes.values() for f in c.methods.values()] + list(mod.functions.values())
        for f in fns:
            for n in walk_no_nested(f.node):
                if not (isinstance(n, ast.Call) and norm(n.func).split('.')[-1] == 'gmd'):
                    continue
                tgt = M.resolve_function(mod, n.func) if hasattr(M, 'resolve_function') else None
                if tgt is not None and tgt is not fn:
                    continue
                arg = next((k.value for k in n.keywords if k.arg == thr), None)
                if arg is None and pos is not None and len(n.args) > pos:
                    arg = n.args[pos]
                src = 'argument'
                if arg is None:
                    arg, src = defaults.get(thr), 'default'
                construct = '%s:gmd(%s=%s)' % (f.qualname, thr, norm(arg) if arg is not None else '?')
                ctx.instance(rule, construct)
                v = const_value(arg) if arg is not None else None
                if arg is None or not isinstance(v, (int, float)) or isinstance(v, bool):
                    ctx.error(rule + ': the tolerance of the gmd call in %s is `%s`, not a numeric constant: cannot tell'
                              % (f.qualname, norm(arg) if arg is not None else None))
                ok = v == 0
                ctx.obligation(rule, construct, ok, {'threshold_param': thr, 'source': src, 'value': v})
                if not ok:
                    ctx.violation(rule, f.qualname, 'gmd is called with the absolute tolerance %s=%r (%s): singular values below it are treated as '
                                  'zero, so a channel whose gain is small (e.g. 1e-6 H) silently loses streams although its condition is '
                                  'unchanged' % (thr, v, src), f.path, n.lineno, operand='gmd-tolerance')


def synthetic():
    a = T.parse_spec('10 * log10(pow(10, x / 20.0))')
    return [('non-inverse-composition-detected', a != T.Term.sym('x')),
            ('inverse-composition-accepted', T.parse_spec('10 * log10(pow(10, x / 10.0))') == T.Term.sym('x'))]


MUTANTS = [
    Mutant('singular-values-broadcast-over-columns', MISC, 'get_principal_component_matrix',
           [('replace', 'out = np.dot(U, np.dot(newS, V_H[:, :num_components]))', 'out = np.dot(U[:, :num_components], S[:num_components] * V_H[:num_components, :num_components])')],
           r'C20\.i:get_principal_component_matrix:svd-broadcast'),
    Mutant('benign-singular-values-with-new-axis', MISC, 'get_principal_component_matrix',
           [('replace', 'out = np.dot(U, np.dot(newS, V_H[:, :num_components]))', 'out = np.dot(U, np.dot(newS, V_H[:, :num_components])) + 0 * (S[:, np.newaxis] * V_H[:S.size])[:1, :1]')],
           None, benign=True),
    Mutant('gmd-strict-no-rotation-test', MISC, 'gmd', [('replace', 'if d[i] >= sigma_bar:', 'if d[i] > sigma_bar:')], r'C20\.j:gmd'),
    Mutant('benign-gmd-yoda-flag-test', MISC, 'gmd', [('replace', 'if d[i] <= sigma_bar:', 'if not d[i] > sigma_bar:')], None, benign=True),
    Mutant('gmd-tuple-update-wrong-slot', MISC, 'gmd', [('regex', r'perm\[j\] = i\n(\s+)invperm\[i\] = j', r'perm[j], invperm[k1] = i, j')], r'C20\.f:gmd'),
    Mutant('benign-gmd-tuple-update', MISC, 'gmd', [('regex', r'perm\[j\] = i\n(\s+)invperm\[i\] = j', r'perm[j], invperm[i] = i, j')], None, benign=True),
    Mutant('gmd-inverse-permutation-wrong-slot', MISC, 'gmd', [('replace', 'invperm[i] = j', 'invperm[k1] = j')], r'C20\.f:gmd'),
    Mutant('dBm2Linear-in-place', CONV, 'dBm2Linear', [('regex', r'    return dB2Linear\(valueIndBm\) / 1000\.0', '    valueIndBm -= 30\n    return dB2Linear(valueIndBm)')],
           r'C20\.e:dBm2Linear'),
    Mutant('dB2Linear-divides-by-20', CONV, 'dB2Linear', [('replace', 'valueIndB / 10.0', 'valueIndB / 20.0')],
           r'C20\.a:(linear2dB|dB2Linear|linear2dBm|dBm2Linear)'),
    Mutant('linear2dBm-times-100', CONV, 'linear2dBm', [('replace', '1000.0', '100.0')], r'C20\.a:(linear2dBm|dBm2Linear)'),
    Mutant('ebn0-sign', CONV, 'EbN0_dB_to_SNR_dB', [('replace', 'EbN0 + 10', 'EbN0 - 10')], r'C20\.a:(EbN0|SNR)'),
    Mutant('projection-drops-inverse', PROJ, 'Projection.calcProjectionMatrix',
           [('replace', 'A.dot(np.linalg.inv(A_H.dot(A))).dot(A_H)', 'A.dot(A_H)')], r'C20\.b:Projection\.calcProjectionMatrix:P P = P'),
    Mutant('projection-transpose-without-conj', PROJ, 'Projection.calcProjectionMatrix',
           [('replace', 'A_H = A.conjugate().transpose()', 'A_H = A.transpose()')], r'C20\.b:Projection\.calcProjectionMatrix:P\^H = P'),
    Mutant('projection-gram-swapped', PROJ, 'Projection.calcProjectionMatrix',
           [('replace', 'np.linalg.inv(A_H.dot(A))', 'np.linalg.inv(A.dot(A_H))')], r'C20\.b:Projection\.calcProjectionMatrix'),
    Mutant('orthogonal-projection-plus', PROJ, 'Projection.calcOrthogonalProjectionMatrix',
           [('replace', 'np.eye(Q.shape[0]) - Q', 'np.eye(Q.shape[0]) + Q')], r'C20\.b:Projection\.calcOrthogonalProjectionMatrix'),
    Mutant('reflect-without-factor-two', PROJ, 'Projection.reflect', [('replace', '2 * self.Q', 'self.Q')],
           r'C20\.b:Projection\.reflect:reflect twice'),
    Mutant('reflect-about-the-complement-sign', PROJ, 'Projection.reflect', [('replace', 'np.eye(self.Q.shape[0]) - 2 * self.Q', '2 * self.Q - np.eye(self.Q.shape[0])')],
           r'C20\.b:Projection\.reflect:fixes the complement'),
    Mutant('chordal-normaliser-two', METR, 'calc_chordal_distance', [('replace', '/ math.sqrt(2.0)', '/ 2.0')], r'C20\.c:calc_chordal_distance:normaliser'),
    Mutant('chordal-second-basis-from-first-matrix', METR, 'calc_chordal_distance', [('replace', 'Q2 = np.linalg.qr(matrix2)[0]', 'Q2 = np.linalg.qr(matrix1)[0]')],
           r'C20\.c:calc_chordal_distance'),
    Mutant('chordal-2-sum-of-projectors', METR, 'calc_chordal_distance_2',
           [('replace', 'calcProjectionMatrix(matrix1) - calcProjectionMatrix(matrix2)', 'calcProjectionMatrix(matrix1) + calcProjectionMatrix(matrix2)')],
           r'C20\.c:calc_chordal_distance_2'),
    Mutant('chordal-q-without-conj', METR, 'calc_chordal_distance', [('replace', 'Q1.dot(Q1.conjugate().transpose())', 'Q1.dot(Q1.transpose())')],
           r'C20\.c:calc_chordal_distance'),
    Mutant('whitening-without-square-root', MISC, 'calc_whitening_matrix', [('replace', '1.0 / L ** 0.5', '1.0 / L')], r'C20\.d:calc_whitening_matrix'),
    Mutant('benign-projection-matmul-operators', PROJ, 'Projection.calcProjectionMatrix',
           [('replace', 'A.dot(np.linalg.inv(A_H.dot(A))).dot(A_H)', 'A @ np.linalg.inv(A_H @ A) @ A_H')], None, benign=True),
    Mutant('benign-orthogonal-projection-recomputed', PROJ, 'Projection.calcOrthogonalProjectionMatrix',
           [('replace', 'np.eye(Q.shape[0]) - Q', '-Q + np.eye(A.shape[0])')], None, benign=True),
    Mutant('benign-whitening-negative-power', MISC, 'calc_whitening_matrix', [('replace', 'np.diag(1.0 / L ** 0.5)', 'np.diag(L ** (-0.5))')], None, benign=True),
    Mutant('benign-chordal-2-swapped-difference', METR, 'calc_chordal_distance_2',
           [('replace', 'calcProjectionMatrix(matrix1) - calcProjectionMatrix(matrix2)', 'calcProjectionMatrix(matrix2) - calcProjectionMatrix(matrix1)')],
           None, benign=True),
    Mutant('benign-pow-operator', CONV, 'dB2Linear', [('replace', 'pow(10, valueIndB / 10.0)', '10 ** (valueIndB / 10)')],
           None, benign=True),
    Mutant('benign-math-log10', CONV, 'linear2dB', [('replace', 'np.log10', 'math.log10')], None, benign=True),
    Mutant('benign-temp', CONV, 'linear2dB', [('regex', r'return (.*)', r'y = \1\n    return y')], None, benign=True),
]

ENGINES = ['model', 'terms', 'matterms']
TECHNIQUE = 'static analysis: scalar and matrix term normal forms of extracted formulas (commutative / non-commutative rewriting under stated contracts, no evaluation)'
