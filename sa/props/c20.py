"""C20 - subspace and linear-algebra kernels: the unit conversions are mutually inverse as terms."""
from __future__ import annotations

from .. import terms as T
from ..report import Ctx
from ..selftest import Mutant

CONV = 'pyphysim/util/conversion.py'

EXPLANATION = (
    'Decides ONE clause of C20: "dB/linear/dBm and Eb/N0 conversions are mutually inverse" - as an identity of '
    'TERMS, for all arguments at once: the function bodies are extracted from the source, composed, and '
    'normalised (polynomial normal form + pow/sqrt + the two cancellation rules log10(10**a)=a, 10**log10(a)=a); '
    'the composition must normalise to the bare argument. An unknown operator is an ANALYSIS-ERROR, never a '
    'violation. Every other clause of C20 (projections Hermitian/idempotent, chordal distances, GMD, whitening, '
    'Sherman-Morrison, eigen selectors) is a floating-point identity of LAPACK results and is NOT decided.')

PAIRS = [('linear2dB', 'dB2Linear'), ('dB2Linear', 'linear2dB'), ('linear2dBm', 'dBm2Linear'),
         ('dBm2Linear', 'linear2dBm'), ('EbN0_dB_to_SNR_dB', 'SNR_dB_to_EbN0_dB'),
         ('SNR_dB_to_EbN0_dB', 'EbN0_dB_to_SNR_dB')]
INLINE = {'dB2Linear', 'linear2dB', 'dBm2Linear', 'linear2dBm'}


def check(ctx: Ctx) -> None:
    M = ctx.model
    ctx.assume('real arithmetic on positive arguments (the identity is algebraic; floating-point rounding is not '
               'modelled); np.log10/math.log10 and pow/np.power/** denote the same operators')
    ctx.rule('C20.a', 'compositions of the unit conversions normalise to the identity term', floor=6)
    for f, g in PAIRS:
        construct = '%s(%s(x))' % (f, g)
        ctx.instance('C20.a', construct)
        try:
            pf, tf = T.function_term(M, M.func(CONV, f), INLINE)
            pg, tg = T.function_term(M, M.func(CONV, g), INLINE)
        except T.Unknown as e:
            ctx.error('C20.a: cannot normalise %s / %s: %s' % (f, g, e))
        sub = {pf[0]: tg}
        # second parameters (bits per symbol) are the same symbol on both sides
        for a, b in zip(pf[1:], pg[1:]):
            sub[a] = T.Term.sym(b)
        comp = T.substitute(tf, sub)
        ok = comp == T.Term.sym(pg[0])
        ctx.obligation('C20.a', construct, ok, {'outer': tf.pretty(), 'inner': tg.pretty(), 'composition': comp.pretty(),
                                                'expected': pg[0]})
        if not ok:
            ctx.violation('C20.a', f, '%s(%s(x)) normalises to `%s`, not to x: the two conversions are not inverse of '
                          'each other (outer: %s ; inner: %s)' % (f, g, comp.pretty(), tf.pretty(), tg.pretty()),
                          CONV, M.func(CONV, f).lineno, operand='o:' + g)


def synthetic():
    a = T.parse_spec('10 * log10(pow(10, x / 20.0))')
    return [('non-inverse-composition-detected', a != T.Term.sym('x')),
            ('inverse-composition-accepted', T.parse_spec('10 * log10(pow(10, x / 10.0))') == T.Term.sym('x'))]


MUTANTS = [
    Mutant('dB2Linear-divides-by-20', CONV, 'dB2Linear', [('replace', 'valueIndB / 10.0', 'valueIndB / 20.0')],
           r'C20\.a:(linear2dB|dB2Linear|linear2dBm|dBm2Linear)'),
    Mutant('linear2dBm-times-100', CONV, 'linear2dBm', [('replace', '1000.0', '100.0')], r'C20\.a:(linear2dBm|dBm2Linear)'),
    Mutant('ebn0-sign', CONV, 'EbN0_dB_to_SNR_dB', [('replace', 'EbN0 + 10', 'EbN0 - 10')], r'C20\.a:(EbN0|SNR)'),
    Mutant('benign-pow-operator', CONV, 'dB2Linear', [('replace', 'pow(10, valueIndB / 10.0)', '10 ** (valueIndB / 10)')],
           None, benign=True),
    Mutant('benign-math-log10', CONV, 'linear2dB', [('replace', 'np.log10', 'math.log10')], None, benign=True),
    Mutant('benign-temp', CONV, 'linear2dB', [('regex', r'return (.*)', r'y = \1\n    return y')], None, benign=True),
]

ENGINES = ['model', 'terms']
TECHNIQUE = 'static analysis: term normal forms of function compositions (symbolic rewriting, no evaluation)'
