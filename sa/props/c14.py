"""C14 - Jakes fading samples do not depend on how generation was chunked."""
from __future__ import annotations

import ast
from typing import List, Optional, Set, Tuple

from .. import terms as T
from ..dsf import analyse_class
from ..families import JAKES
from ..model import FuncInfo, is_self_attr, norm, walk_no_nested
from ..report import Ctx
from ..selftest import Mutant

FG = 'pyphysim/channels/fading_generators.py'

EXPLANATION = (
    'Decides the bookkeeping clauses of C14, not the sample values. C14.a: the time vector of a request for n '
    'samples is built from an INTEGER-count range (start + arange(n)*Ts, or linspace(num=n)); a float-step '
    'np.arange(start, stop, step) - whose length is ceil((stop-start)/step) evaluated in floating point and '
    'therefore depends on how long the generator has been running - is a violation. C14.b: both mutators of the '
    'running time (generation and skip) advance it by exactly count x Ts (equal term normal forms), and nothing '
    'else writes it. C14.c: (DSF) the per-ray phases always match the configured shape and number of rays after '
    'any sequence of shape changes. Not decided: sample values, |h| <= sqrt(L), zero-Doppler invariance.'
    ' General rules also applied here (see DESIGN 10.5): validate-before-commit (no `raise` reachable after the object was already changed in a public mutator); escaping attributes are only rebound, never written in place. C14.g: block loops with a floor trip count test/handle the remainder.'
    ' C14.j: the samples normalise to the Jakes sum of sinusoids at the generated time vector (whole-array, in-place and block-wise spellings); the time vector is not rewritten in between.')

INT_FUNCS = {'int', 'len', 'round'}


def _int_typed(e: ast.AST, int_names: Set[str]) -> bool:
    if isinstance(e, ast.Constant):
        return isinstance(e.value, int) and not isinstance(e.value, bool)
    if isinstance(e, ast.Name):
        return e.id in int_names
    if isinstance(e, ast.Call):
        return norm(e.func) in INT_FUNCS
    if isinstance(e, ast.BinOp) and isinstance(e.op, (ast.Add, ast.Sub, ast.Mult, ast.FloorDiv)):
        return _int_typed(e.left, int_names) and _int_typed(e.right, int_names)
    if isinstance(e, ast.UnaryOp):
        return _int_typed(e.operand, int_names)
    return False


def time_ranges(fn: FuncInfo, int_names: Set[str]):
    """(call, ok, why) for each range constructor in fn."""
    for n in walk_no_nested(fn.node):
        if not isinstance(n, ast.Call):
            continue
        f = norm(n.func)
        if f in ('np.arange', 'numpy.arange', 'arange'):
            args = list(n.args) + [k.value for k in n.keywords if k.arg in ('start', 'stop', 'step')]
            ok = all(_int_typed(a, int_names) for a in args)
            yield n, ok, 'np.arange with non-integer start/stop/step: its length is computed in floating point' if not ok else 'integer-count arange'
        elif f in ('np.linspace', 'numpy.linspace'):
            num = [k.value for k in n.keywords if k.arg == 'num'] + (list(n.args[2:3]))
            ok = bool(num) and _int_typed(num[0], int_names)
            yield n, ok, 'linspace without an integer num' if not ok else 'linspace(num=n)'


def _check_similar_is_fresh(ctx: Ctx) -> None:
    """C14.i: a "similar" generator starts its own process at time 0: it is constructed, not copied from a running one."""
    from ..astutil import expander
    M = ctx.model
    ctx.rule('C14.i', 'get_similar_fading_generator returns a generator built by a constructor call (fresh time cursor and sample buffer); a copy of '
                      '`self` carries the running cursor and the last generated samples along', floor=2)
    base = M.cls('FadingSampleGenerator')
    for c in M.subclasses(base):
        f = c.methods.get('get_similar_fading_generator')
        if f is None:
            continue
        construct = f.qualname
        ctx.instance('C14.i', construct)
        ex = expander(f)
        rets = [n for n in walk_no_nested(f.node) if isinstance(n, ast.Return) and n.value is not None]
        if not rets:
            ctx.error('C14.i: %s returns nothing (cannot tell)' % construct)
        verdicts = []
        sn = f.self_name or 'self'
        for r in rets:
            v = ex(r.value)
            fn_ = norm(v.func) if isinstance(v, ast.Call) else ''
            if isinstance(v, ast.Call) and (fn_ in M.classes and M.classes[fn_] in [c] + M.mro(c) + M.subclasses(c) or fn_ in ('type(%s)' % sn, '%s.__class__' % sn)):
                verdicts.append('constructed')
            elif isinstance(v, ast.Call) and fn_ in ('copy.copy', 'copy.deepcopy', 'copy', 'deepcopy') and v.args and norm(v.args[0]) == sn:
                resets = {t.attr for n in walk_no_nested(f.node) if isinstance(n, ast.Assign) for t in n.targets
                          if isinstance(t, ast.Attribute) and isinstance(r.value, ast.Name) and norm(t.value) == r.value.id}
                verdicts.append('copied' if not {'_current_time', '_samples'} <= resets else 'copied-and-reset')
            else:
                verdicts.append('unknown:' + norm(v)[:40])
        if any(x.startswith('unknown') for x in verdicts) and 'copied' not in verdicts:
            ctx.error('C14.i: %s returns `%s`, neither a constructor call nor a copy of self (cannot tell)' % (construct, verdicts))
        ok = 'copied' not in verdicts
        ctx.obligation('C14.i', construct, ok, {'returns': verdicts})
        if not ok:
            ctx.violation('C14.i', construct, 'returns a copy of `self`: the new generator inherits the running time cursor (_current_time) and the last '
                          'generated samples of its parent, so its sample k is not the model value at k x Ts and get_samples() returns the '
                          'parent\'s block', f.path, f.lineno, operand='copy-of-self')


def check(ctx: Ctx) -> None:
    M = ctx.model
    ctx.assume('E1 assumptions; num_samples/NSamples are integers (the property quantifies over integer request sizes)')
    ctx.rule('C14.a', 'time vectors are built from integer-count ranges', floor=2)
    for q, ints in (('JakesSampleGenerator._generate_time_samples', {'num_samples'}),
                    ('generate_jakes_samples', {'NSamples'})):
        fn = M.func(FG, q)
        found = False
        from ..astutil import defaulted_param_aliases
        ints = set(ints) | {k for k, v in defaulted_param_aliases(fn).items() if v in ints}
        for call, ok, why in time_ranges(fn, ints):
            found = True
            ctx.instance('C14.a', q)
            ctx.obligation('C14.a', q, ok, {'range': norm(call)[:100], 'verdict': why})
            if not ok:
                ctx.violation('C14.a', q, 'the time vector is `%s`: %s, so the number of samples returned depends on the '
                              'running time (e.g. after skipping 1e7 samples with Ts=1e-3 a request for 1 sample yields 2)'
                              % (norm(call)[:90], why), fn.path, call.lineno, operand='range')
        if not found:
            ctx.error('C14.a: no range constructor found in %s (idiom unknown)' % q)
    # ------------------------------------------------------------------ C14.b
    ctx.rule('C14.b', 'generation and skip advance the running time by count x Ts; no other writer', floor=3)
    cls = M.cls('JakesSampleGenerator')
    gen = M.func(FG, 'JakesSampleGenerator._generate_time_samples')
    skp = M.func(FG, 'JakesSampleGenerator.skip_samples_for_next_generation')
    want = T.parse_spec('self._current_time + num_samples * self.Ts')
    for fn in (gen, skp):
        construct = fn.qualname + ':advance'
        ctx.instance('C14.b', construct)
        stores = [n for n in walk_no_nested(fn.node) if isinstance(n, (ast.Assign, ast.AugAssign))
                  and any(is_self_attr(t, 'self') == '_current_time' for t in (n.targets if isinstance(n, ast.Assign) else [n.target]))]
        ok, got_s = False, None
        if len(stores) == 1:
            s = stores[0]
            try:
                env = T.Env(M, fn)
                for k, v in T.local_terms(M, fn).items():
                    if s.lineno > 0:
                        env.vars[k] = v
                from ..astutil import defaulted_param_aliases
                for k, v in defaulted_param_aliases(fn).items():
                    env.vars[k] = T.Term.sym(v)
                if isinstance(s, ast.AugAssign) and isinstance(s.op, ast.Add):
                    got = T.Term.sym('self._current_time') + T.from_ast(s.value, env)
                else:
                    got = T.from_ast(s.value, env)
                got = T.substitute(got, {'self._Ts': T.Term.sym('self.Ts')})
                got_s = got.pretty()
                ok = got == want
            except T.Unknown as e:
                got_s = 'not a formula: %s' % e
        ctx.obligation('C14.b', construct, ok, {'stores': [norm(s) for s in stores], 'normal_form': got_s, 'specification': want.pretty()})
        if not ok:
            ctx.violation('C14.b', fn.qualname, 'the running time is not advanced by num_samples * Ts (stores %s, normal form '
                          '%s): consecutive requests do not continue at sample k x Ts' % ([norm(s) for s in stores], got_s),
                          fn.path, fn.lineno, operand='advance')
    # the module-level generator returns the advanced time: current_time + NSamples * Ts
    gj = M.func(FG, 'generate_jakes_samples')
    ctx.instance('C14.b', 'generate_jakes_samples:advance')
    rets = [n for n in walk_no_nested(gj.node) if isinstance(n, ast.Return) and isinstance(n.value, ast.Tuple)]
    okf, got_s = False, None
    if len(rets) == 1:
        try:
            env = T.Env(M, gj)
            env.vars.update(T.local_terms(M, gj))
            got = T.from_ast(rets[0].value.elts[0], env)
            got_s = got.pretty()
            okf = got == T.parse_spec('current_time + NSamples * Ts')
        except T.Unknown as e:
            got_s = 'not a formula: %s' % e
    ctx.obligation('C14.b', 'generate_jakes_samples:advance', okf, {'returned_time': got_s})
    if not okf:
        ctx.violation('C14.b', 'generate_jakes_samples', 'the returned next time is `%s`, not current_time + NSamples * Ts' % got_s,
                      gj.path, gj.lineno, operand='advance')
    writers = set()
    for fn in list(cls.methods.values()) + list(cls.setters.values()) + list(cls.getters.values()):
        for n in ast.walk(fn.node):
            if isinstance(n, ast.Attribute) and isinstance(n.ctx, ast.Store) and is_self_attr(n, fn.self_name or 'self') == '_current_time':
                writers.add(fn.name)
    construct = 'JakesSampleGenerator:_current_time-writers'
    ctx.instance('C14.b', construct)
    ok = writers <= {'__init__', '_generate_time_samples', 'skip_samples_for_next_generation'}
    ctx.obligation('C14.b', construct, ok, {'writers': sorted(writers)})
    if not ok:
        ctx.violation('C14.b', 'JakesSampleGenerator', 'unexpected writers of _current_time: %s' % sorted(writers), FG,
                      cls.node.lineno, operand='writers')
    from ..dsf import auto_memo_check
    ctx.rule('C14.d', 'no auto-discovered lazily filled cache of the classes in the anchored modules can be stale at the exit of a public method (dependencies = what the fill expression reads, incl. mutating calls on held sub-objects)', floor=3)
    auto_memo_check(ctx, 'C14.d', [FG])
    from ..commit import check_family
    check_family(ctx, 'C14.e', ['FadingSampleGenerator'], floor=2)
    from ..idioms import check_escaping_not_mutated
    check_escaping_not_mutated(ctx, 'C14.f', [c.name for c in ctx.model.module(FG).classes.values()], floor=2)
    from ..idioms import check_block_loops_cover
    check_block_loops_cover(ctx, 'C14.g', [FG, 'pyphysim/channels/fading.py'], floor=3)
    from ..idioms import check_no_tolerance_fast_paths
    check_no_tolerance_fast_paths(ctx, 'C14.h', [FG], floor=10)
    _check_similar_is_fresh(ctx)
    _check_jakes_formula(ctx)
    # ------------------------------------------------------------------ C14.c
    ctx.rule('C14.c', 'DSF: per-ray phases follow the configured shape', floor=10)
    analyse_class(ctx, 'C14.c', JAKES, 'JakesSampleGenerator')


def _check_jakes_formula(ctx: Ctx) -> None:
    """C14.j: the samples are the Jakes sum of sinusoids evaluated at the generated time vector, as an identity of terms.

    Three outcomes per function: every expression that becomes (a block of) the samples normalises to the model -> holds; the time
    vector is rewritten by arithmetic, or an expression normalises to a DIFFERENT closed formula while every statement that touches the
    names involved is one the sequential evaluator models -> violation; anything else -> cannot tell."""
    import copy
    M = ctx.model
    ctx.rule('C14.j', 'the generated samples are sqrt(1/L) * sum_l exp(1j (2 pi Fd cos(phi_l) t + psi_l)) with t exactly the generated time '
                      'vector (identity of normal forms; whole-array, in-place and block-wise spellings alike); the time vector is not '
                      'rewritten between its generation and the sum', floor=2)
    SPEC = '(1 / L) ** (1 / 2) * sum(exp(1j * (2 * pi * Fd * cos(phi) * t + psi)), 0)'
    alias = {'self._Fd': T.Term.sym('self.Fd'), 'self._L': T.Term.sym('self.L'), 'self._Ts': T.Term.sym('self.Ts')}
    WIDE = {'complex', 'float', 'np.complex128', 'np.float64', 'np.complex_', 'np.float_', 'numpy.complex128', 'numpy.float64'}
    for q, syms, tsrc in (
            ('JakesSampleGenerator.generate_more_samples',
             {'L': 'self.L', 'Fd': 'self.Fd', 'phi': 'self._phi_l', 'psi': 'self._psi_l'}, 'self._generate_time_samples'),
            ('generate_jakes_samples', {'L': 'L', 'Fd': 'Fd', 'phi': 'phi_l', 'psi': 'psi_l'}, None)):
        fn = M.func(FG, q)
        ctx.instance('C14.j', q)
        body = [st for st in fn.node.body if not (isinstance(st, ast.Expr) and isinstance(st.value, ast.Constant))]
        # the time vector: the local bound to the time-sample call (class) or to the arange expression (function)
        tnames = [n.targets[0].id for n in walk_no_nested(fn.node) if isinstance(n, ast.Assign) and len(n.targets) == 1
                  and isinstance(n.targets[0], ast.Name) and any(
                      isinstance(c, ast.Call) and (norm(c.func) == tsrc if tsrc else norm(c.func) in ('np.arange', 'np.linspace'))
                      for c in ast.walk(n.value))]
        if tsrc is None:
            # function form: the time vector is the LAST of the chain (sample_index = arange(..); t = current_time + sample_index * Ts)
            chain = set(tnames)
            for n in sorted((n for n in walk_no_nested(fn.node) if isinstance(n, ast.Assign)), key=lambda n_: n_.lineno):
                if len(n.targets) == 1 and isinstance(n.targets[0], ast.Name) and any(
                        isinstance(x, ast.Name) and x.id in chain for x in ast.walk(n.value)) and not any(
                        isinstance(c, ast.Call) and norm(c.func).split('.')[-1] in ('exp', 'sum') for c in ast.walk(n.value)):
                    chain.add(n.targets[0].id)
                    tnames.append(n.targets[0].id)
            tnames = tnames[-1:]
        if len(set(tnames)) != 1:
            ctx.error('C14.j: %s: the time vector is bound to %s (one name expected): cannot tell' % (q, sorted(set(tnames))))
        tn = tnames[0]
        binds = sorted((n for n in walk_no_nested(fn.node) if isinstance(n, (ast.Assign, ast.AugAssign)) and any(
            isinstance(t_, ast.Name) and t_.id == tn for t_ in (n.targets if isinstance(n, ast.Assign) else [n.target]))),
            key=lambda b_: (b_.lineno, b_.col_offset))
        rewrites = [b for b in binds[1:] if isinstance(b, ast.AugAssign) or any(
            isinstance(x, ast.BinOp) or (isinstance(x, ast.Call) and norm(x.func).split('.')[-1] in (
                'mod', 'fmod', 'remainder', 'round', 'around', 'floor', 'clip', 'minimum', 'maximum', 'unwrap')) for x in ast.walk(b.value))]
        if rewrites:
            b = rewrites[0]
            ctx.obligation('C14.j', q, False, {'time_vector_rewritten_by': norm(b)[:90]})
            ctx.violation('C14.j', q, 'the generated time vector is rewritten by `%s` before it enters the sum of sinusoids: the rays have '
                          'different Doppler shifts Fd cos(phi_l), so no common wrap / rounding of t leaves every ray\'s phase unchanged - sample k '
                          'is no longer the model at k x Ts' % norm(b)[:70], fn.path, b.lineno, operand='time-rewritten')
            continue
        if len(binds) != 1:
            ctx.error('C14.j: %s rebinds the time vector `%s` in a way that is not understood: cannot tell' % (q, tn))

        class Canon(ast.NodeTransformer):
            """slices of the time vector stand for the time vector (blocks); widening dtype keywords are dropped"""
            def visit_Subscript(self, n):
                self.generic_visit(n)
                if isinstance(n.value, ast.Name) and n.value.id == tn and isinstance(n.ctx, ast.Load):
                    return ast.copy_location(ast.Name(id=tn, ctx=ast.Load()), n)
                return n

            def visit_Call(self, n):
                self.generic_visit(n)
                n.keywords = [k for k in n.keywords if not (k.arg == 'dtype' and norm(k.value) in WIDE)]
                if norm(n.func).split('.')[-1] in ('sum', 'mean') and len(n.args) == 1 and len(n.keywords) == 1 and n.keywords[0].arg == 'axis':
                    n.args.append(n.keywords[0].value)
                    n.keywords = []
                return n
        cbody = [ast.fix_missing_locations(Canon().visit(copy.deepcopy(st))) for st in body]
        # sequential evaluation; the samples are a whole-array expression, or a pre-allocated array filled block by block in a loop
        out_name = None
        for st in cbody:
            if isinstance(st, ast.Assign) and any(is_self_attr(t_, 'self') == '_samples' for t_ in st.targets):
                out_name = st.value
            if isinstance(st, ast.Return) and isinstance(st.value, ast.Tuple) and len(st.value.elts) == 2:
                out_name = st.value.elts[1]
        if out_name is None:
            ctx.error('C14.j: %s no longer produces its samples in one store / one returned pair (cannot tell)' % q)
        env = T.Env(M, fn)
        got: List[Tuple[str, T.Term, int]] = []
        unmodelled: List[str] = []
        try:
            for st in cbody:
                if isinstance(st, ast.For) and isinstance(out_name, ast.Name):
                    le = T.block_env(M, fn, st.body, env.clone())
                    for x in st.body:
                        if isinstance(x, ast.Assign) and len(x.targets) == 1 and isinstance(x.targets[0], ast.Subscript) \
                                and isinstance(x.targets[0].value, ast.Name) and x.targets[0].value.id == out_name.id:
                            got.append(('block', T.substitute(T.from_ast(x.value, le), alias), x.lineno))
                        elif not isinstance(x, (ast.Assign, ast.AugAssign, ast.AnnAssign)) or not all(
                                isinstance(t_, ast.Name) for t_ in (x.targets if isinstance(x, ast.Assign) else [x.target])):
                            unmodelled.append(norm(x)[:50])
                    continue
                if isinstance(st, (ast.If, ast.While, ast.With, ast.Try, ast.For)):
                    touched = {x.id for x in ast.walk(st) if isinstance(x, ast.Name) and isinstance(x.ctx, ast.Store)}
                    if touched & ({tn} | ({out_name.id} if isinstance(out_name, ast.Name) else set())):
                        unmodelled.append(norm(st)[:50])
                T.block_env(M, fn, [st], env)
            if not got:
                got.append(('whole', T.substitute(T.from_ast(out_name, env), alias), out_name.lineno))
            elif isinstance(out_name, ast.Name) and out_name.id in env.vars and not any(
                    a[0] == 'call' and str(a[1]).split('.')[-1] in ('empty', 'zeros', 'empty_like', 'zeros_like') for a in T.atoms_of(env.vars[out_name.id])):
                unmodelled.append('samples array `%s` is not a fresh allocation' % out_name.id)
            tt = T.substitute(env.vars[tn], alias) if tn in env.vars else None
            if tt is None:
                raise T.Unknown('the time vector is not a formula')
            want = T.parse_spec(SPEC, None, t=tt, **{k: T.Term.sym(v) for k, v in syms.items()})
        except T.Unknown as e:
            ctx.error('C14.j: the samples of %s are not a closed formula of the time vector (%s): cannot tell' % (q, e))
        bad = [(k, g, ln) for k, g, ln in got if g != want]
        ctx.obligation('C14.j', q, not bad, {'samples': [(k, g.pretty()[:160]) for k, g, _ in got], 'specification': want.pretty()[:160]})
        if bad and unmodelled:
            ctx.error('C14.j: the samples of %s normalise to `%s`, not to the model, but statements the evaluator does not model touch the '
                      'names involved (%s): cannot tell' % (q, bad[0][1].pretty()[:80], unmodelled[:2]))
        for k, g, ln in bad[:1]:
            ctx.violation('C14.j', q, 'the samples are `%s`, not the Jakes model `%s`' % (g.pretty()[:120], want.pretty()[:120]),
                          fn.path, ln, operand='formula')


def synthetic():
    import ast as _a
    from ..overlay import Overlay
    from ..model import Model
    src = 'import numpy as np\ndef f(n, Ts, t0):\n    return np.arange(t0, n * Ts + t0, Ts)\ndef g(n, Ts, t0):\n    return t0 + np.arange(n) * Ts\n'
    m = Model(Overlay({'pyphysim/syn.py': src}, '<syn>'))
    f = list(time_ranges(m.func('pyphysim/syn.py', 'f'), {'n'}))
    g = list(time_ranges(m.func('pyphysim/syn.py', 'g'), {'n'}))
    return [('float-step-arange', len(f) == 1 and not f[0][1]), ('integer-count-arange-accepted', len(g) == 1 and g[0][1])]


MUTANTS = [
    Mutant('time-wrapped-to-one-doppler-period', FG, 'JakesSampleGenerator.generate_more_samples',
           [('regex', r'(\n    t = self\._generate_time_samples\(num_samples\))', r'\1\n    if self.Fd > 0:\n        t = np.mod(t, 1.0 / self.Fd)')],
           r'C14\.j:JakesSampleGenerator\.generate_more_samples:time-rewritten'),
    Mutant('sine-of-the-arrival-angle', FG, 'JakesSampleGenerator.generate_more_samples',
           [('replace', 'np.cos(self._phi_l)', 'np.sin(self._phi_l)')], r'C14\.j:JakesSampleGenerator\.generate_more_samples:formula'),
    Mutant('function-form-drops-the-2pi', FG, 'generate_jakes_samples',
           [('replace', '2 * np.pi * Fd', 'np.pi * Fd')], r'C14\.j:generate_jakes_samples:formula'),
    Mutant('benign-jakes-exponent-reassociated', FG, 'JakesSampleGenerator.generate_more_samples',
           [('replace', '2 * np.pi * self.Fd * np.cos(self._phi_l) * t + self._psi_l', 'self._psi_l + t * np.cos(self._phi_l) * (2 * np.pi * self.Fd)')],
           None, benign=True),
    Mutant('static-channel-shortcut-by-default-tolerance', FG, 'JakesSampleGenerator.generate_more_samples',
           [('regex', r'(\n    t = self\._generate_time_samples\(num_samples\))', r'\n    if np.isclose(self._Fd * self._Ts, 0.0):\n        self._samples = np.zeros(1)\n        return\1')],
           r'C14\.h:JakesSampleGenerator\.generate_more_samples:tolerance-path'),
    Mutant('similar-generator-is-a-copy-of-the-running-one', FG, 'JakesSampleGenerator.get_similar_fading_generator',
           [('replace', 'return JakesSampleGenerator(self._Fd, self._Ts, self._L, self._shape)', 'g = copy.copy(self)\n    g._set_phi_and_psi_according_to_shape()\n    return g')],
           r'C14\.i:JakesSampleGenerator\.get_similar_fading_generator:copy-of-self'),
    Mutant('samples-generated-in-whole-blocks-only', FG, 'JakesSampleGenerator.generate_more_samples',
           [('regex', r'h = math\.sqrt[^\n]*\n', 'n = t.shape[-1]\n    blk = 2 ** 16\n    h = np.empty(self._phi_l.shape[1:-1] + (n,), dtype=complex)\n    for b in range(max(n // blk, 1)):\n        h[..., b * blk:(b + 1) * blk] = math.sqrt(1.0 / self.L) * np.sum(np.exp(1j * (2 * np.pi * self.Fd * np.cos(self._phi_l) * t[..., b * blk:(b + 1) * blk] + self._psi_l)), axis=0)\n')],
           r'C14\.g:JakesSampleGenerator\.generate_more_samples:floor-blocks'),
    Mutant('revert-fix-float-arange', FG, 'JakesSampleGenerator._generate_time_samples',
           [('regex', r't = [^\n]*np\.arange\([^\n]*\)[^\n]*', 't = np.arange(self._current_time, num_samples * self.Ts + self._current_time, self.Ts)')],
           r'C14\.a:JakesSampleGenerator\._generate_time_samples'),
    Mutant('skip-advances-n-minus-1', FG, 'JakesSampleGenerator.skip_samples_for_next_generation',
           [('replace', 'num_samples * self.Ts', '(num_samples - 1) * self.Ts')], r'C14\.b:JakesSampleGenerator\.skip_samples_for_next_generation'),
    Mutant('generate-advances-from-last-sample', FG, 'JakesSampleGenerator._generate_time_samples',
           [('regex', r'self\._current_time (\+)?= [^\n]*', 'self._current_time = t[-1]')],
           r'C14\.b:JakesSampleGenerator\._generate_time_samples'),
    Mutant('shape-setter-without-redraw', FG, 'JakesSampleGenerator.shape@setter',
           [('delete', r'self\._set_phi_and_psi_according_to_shape\(\)')], r'C14\.c:JakesSampleGenerator\.shape@setter'),
    Mutant('benign-linspace', FG, 'JakesSampleGenerator._generate_time_samples',
           [('regex', r't = [^\n]*np\.arange\([^\n]*\)[^\n]*',
             't = np.linspace(self._current_time, self._current_time + num_samples * self.Ts, num=num_samples, endpoint=False)')],
           None, benign=True),
]

ENGINES = ['model', 'dsf', 'terms']
TECHNIQUE = ('static analysis: integer-count range idiom rule, term normal forms of the time-advance stores, '
             'derived-state freshness dataflow for the per-ray phases')


def sweep(overlay):
    from ..dsf import dsf_sweep
    from ..selftest import sweep_lines
    out = dsf_sweep(overlay, JAKES, 'C14')
    for q in ('JakesSampleGenerator._generate_time_samples', 'JakesSampleGenerator.skip_samples_for_next_generation'):
        out += sweep_lines(overlay, FG, q, lambda t: t.startswith('self._current_time'), 'C14')
    return out
