"""C03 - TDL channel output is the convolution with the impulse response it reports (structural clauses)."""
from __future__ import annotations

import ast
from typing import Dict, List, Optional, Tuple

from .. import terms as T
from ..dsf import analyse_class
from ..families import TDL_IR
from ..model import FuncInfo, Model, is_self_attr, norm, walk_no_nested
from ..paths import ExcHierarchy, PathInterp
from ..report import Ctx
from ..selftest import Mutant

FA = 'pyphysim/channels/fading.py'
SU = 'pyphysim/channels/singleuser.py'
MU = 'pyphysim/channels/multiuser.py'

EXPLANATION = (
    'Decides the bookkeeping clauses of C03, not the convolution/DFT equalities. C03.a: the number of subcarriers '
    'selected by a slice is not computed by floor-dividing the span of slice.indices(n) by the step (wrong whenever '
    'the step does not divide the span: slice(0,10,3) selects 4, the formula gives 3); accepted: '
    'len(range(*idx)), ceil form, length of an indexed array. C03.b: what is reported is what was used - in '
    'corrupt_data exactly one generate_impulse_response precedes every read of the last response and none follows; '
    'in the frequency-domain path every block generates once and appends that response once, and the concatenation '
    'is stored before the return. C03.c: SuChannel scales the time output, the frequency output and the reported '
    'response by the same factor sqrt(path loss) under the same None-guard. C03.d: MuChannel superposes per link '
    'with matched indices (channel column j with signal row j, first term 0, loop 1..num_tx) and transposes the '
    'grid under switched direction in both methods. C03.e: (DSF) the dense-tap memo of TdlImpulseResponse cannot go '
    'stale; the profile arrays are frozen. C03.f: discretisation takes np.unique of the rounded integer delays, '
    'ACCUMULATES (+=) colliding tap powers through the inverse index and normalises by their sum. Not decided: '
    'linearity, output length, DFT equality. C03.j: every value TdlChannel.corrupt_data returns is built from the tap delays as well as the tap values; C03.k: block loops with a floor trip count test/handle the remainder; C03.l: all tests of one boolean flag (e.g. switched_direction) have the same form.')


# ---------------------------------------------------------------------------------------------
def slice_length_sites(fn: FuncInfo):
    """(stmt, verdict, why) for assignments computing a length from the result of X.indices(n)."""
    idx_names = set()
    for n in walk_no_nested(fn.node):
        if isinstance(n, ast.Assign) and isinstance(n.targets[0], ast.Name) and isinstance(n.value, ast.Call) \
                and isinstance(n.value.func, ast.Attribute) and n.value.func.attr == 'indices':
            idx_names.add(n.targets[0].id)
    for n in walk_no_nested(fn.node):
        if not isinstance(n, ast.Assign):
            continue
        v = n.value
        uses = {x.value.id for x in ast.walk(v) if isinstance(x, ast.Subscript) and isinstance(x.value, ast.Name) and x.value.id in idx_names}
        starred = {x.value.id for x in ast.walk(v) if isinstance(x, ast.Starred) and isinstance(x.value, ast.Name) and x.value.id in idx_names}
        direct = [x for x in ast.walk(v) if isinstance(x, ast.Call) and isinstance(x.func, ast.Attribute) and x.func.attr == 'indices']
        if isinstance(v, ast.Call) and isinstance(v.func, ast.Attribute) and v.func.attr == 'indices':
            continue                        # the `indexes = X.indices(n)` binding itself
        if not uses and not starred and not direct:
            continue
        s = norm(v).replace(' ', '')
        if s.startswith('len(range(*') and (starred or (direct and isinstance(v, ast.Call) and v.args and isinstance(v.args[0], ast.Call)
                                                         and v.args[0].args and isinstance(v.args[0].args[0], ast.Starred)
                                                         and v.args[0].args[0].value is direct[0])):
            yield n, True, 'len(range(...))'
            continue
        if s.startswith('len(range(') and uses and isinstance(v, ast.Call) and v.args and isinstance(v.args[0], ast.Call):
            nm = next(iter(uses))
            if [norm(a).replace(' ', '') for a in v.args[0].args] == ['%s[%d]' % (nm, i) for i in range(3)]:
                yield n, True, 'len(range(start, stop, step))'
                continue
        if direct and not uses:
            yield n, None, 'unrecognised length formula over slice.indices()'
            continue
        if isinstance(v, ast.BinOp) and isinstance(v.op, ast.FloorDiv):
            nm = next(iter(uses))
            num = norm(v.left).replace(' ', '')
            span = '%s[1]-%s[0]' % (nm, nm)
            step = '%s[2]' % nm
            ceil_forms = ('%s+%s-1' % (span, step), '(%s)+%s-1' % (span, step), '%s+(%s-1)' % (span, step), '%s-1+%s' % (span, step))
            if norm(v.right).replace(' ', '') == step and any(num.strip('()') == c.strip('()') for c in ceil_forms):
                yield n, True, 'ceil form'
            else:
                yield n, False, 'floor division of the span by the step'
            continue
        yield n, None, 'unrecognised length formula over slice.indices()'


class _Reported(PathInterp):
    """corrupt_data: counts generate calls and records reads of the last response.  state = (n_gen capped at 2,)"""

    def __init__(self, fn, h):
        super().__init__(fn, h)
        self.reads_before: List[ast.AST] = []
        self.sn = fn.self_name or 'self'

    def join(self, a, b):
        return a | b

    def on_call(self, c, st):
        if is_self_attr(c.func, self.sn) == 'generate_impulse_response':
            return frozenset(min(x + 1, 2) for x in st)
        return st

    def on_stmt(self, s, st):
        for n in ast.walk(s) if not isinstance(s, (ast.If, ast.For, ast.While, ast.Try, ast.With)) else []:
            if isinstance(n, ast.Attribute) and isinstance(n.ctx, ast.Load) and is_self_attr(n, self.sn) == '_last_impulse_response':
                if any(x != 1 for x in st):
                    self.reads_before.append(n)
        return st


def check_delays_applied(ctx: Ctx, rule: str) -> None:
    """Every value TdlChannel.corrupt_data returns carries the tap DELAYS, not only the tap values (read-set per return)."""
    from ..astutil import return_dependences
    M = ctx.model
    ctx.rule(rule, 'TdlChannel.corrupt_data / TdlImpulseResponse.get_freq_response: every returned value that is built from the sparse tap values is also '
                   'built from their sparse indexes (the delays) - and from the signal - no return path drops the delays', floor=2)
    for q, needs_signal in (('TdlChannel.corrupt_data', True), ('TdlImpulseResponse.get_freq_response', False)):
        cd = M.func(FA, q)
        rets = return_dependences(cd)
        if not rets:
            ctx.error('%s: %s has no return statement (cannot tell)' % (rule, q))
        sig = [p for p in cd.params if p != cd.self_name][0] if needs_signal else None
        for r, deps in rets:
            construct = '%s:return@%s' % (q, norm(r.value)[:40])
            ctx.instance(rule, construct)
            last = {part.lstrip('_') for d in deps for part in d.split('.')}
            sparse_vals = 'tap_values_sparse' in last
            dense_vals = bool(last & {'tap_values', 'get_samples_including_the_extra_zeros', 'tap_values_dense'})
            delays = bool(last & {'tap_indexes_sparse', 'tap_delays', 'tap_indexes'})
            if not sparse_vals and not dense_vals:
                ctx.error('%s: the value returned at line %d of %s depends on neither the sparse nor the dense tap values of the impulse response '
                          '(unknown way of applying the channel: cannot tell)' % (rule, r.lineno, q))
            ok = (dense_vals or delays) and (sig is None or sig in deps)
            ctx.obligation(rule, construct, ok, {'sources': sorted(d for d in deps if 'tap' in d or 'samples' in d or d == sig)})
            if not ok:
                what = 'the transmitted signal' if (sig is not None and sig not in deps) else 'the tap delays (tap_indexes_sparse)'
                ctx.violation(rule, q, 'the value returned at line %d is computed from %s without %s: on that path a delayed '
                              'tap is applied as if its delay were 0, so the output disagrees with the reported impulse response'
                              % (r.lineno, 'tap_values_sparse' if sparse_vals else 'tap_values', what), cd.path, r.lineno, operand='return-without-delays')


def check_linearity(ctx: Ctx, rule: str) -> None:
    """Every term stored or accumulated into the array a transmission returns is homogeneous of degree 1 in the signal."""
    from ..astutil import degree_set, single_locals
    M = ctx.model
    ctx.rule(rule, 'the received signal is linear in the transmitted one: every term stored / accumulated into the returned array of '
                   'corrupt_data and corrupt_data_in_freq_domain has homogeneity degree exactly 1 in `signal` (no offset, no square, no '
                   'term that ignores the signal)', floor=2)
    for q in ('TdlChannel.corrupt_data', 'TdlChannel.corrupt_data_in_freq_domain'):
        fn = M.func(FA, q)
        sig = [p for p in fn.params if p != fn.self_name][0]
        defs = {k: v for k, v in single_locals(fn).items() if k != sig}
        rets = [n for n in walk_no_nested(fn.node) if isinstance(n, ast.Return) and n.value is not None]
        outs = set()
        for r in rets:
            e = r.value
            while (isinstance(e, ast.Attribute) and e.attr == 'T') or (isinstance(e, ast.Call) and isinstance(e.func, ast.Attribute)
                                                                       and e.func.attr in ('transpose', 'copy', 'conj') and not e.args):
                e = e.value if isinstance(e, ast.Attribute) else e.func.value
            if isinstance(e, ast.Name):
                outs.add(e.id)
        if not outs:
            ctx.error('%s: %s does not return a named array (cannot tell)' % (rule, q))
        n_terms = 0
        for n in walk_no_nested(fn.node):
            tgt = val = None
            if isinstance(n, ast.AugAssign) and isinstance(n.op, (ast.Add, ast.Sub)):
                tgt, val = n.target, n.value
            elif isinstance(n, ast.Assign) and len(n.targets) == 1 and isinstance(n.targets[0], ast.Subscript):
                tgt, val = n.targets[0], n.value
            if tgt is None:
                continue
            root = tgt
            while isinstance(root, ast.Subscript):
                root = root.value
            if not (isinstance(root, ast.Name) and root.id in outs):
                continue
            n_terms += 1
            construct = '%s:%s' % (q, norm(tgt)[:40])
            ctx.instance(rule, construct)
            ds = degree_set(val, sig, defs)
            if ds is None:
                ctx.error('%s: the term `%s` stored into the output of %s is not a product / quotient / sum the degree analysis understands '
                          '(cannot tell)' % (rule, norm(val)[:70], q))
            ok = ds == {1}
            ctx.obligation(rule, construct, ok, {'term': norm(val)[:90], 'degrees_in_signal': sorted(ds)})
            if not ok:
                ctx.violation(rule, q, 'the term `%s` added to the received signal has degree(s) %s in `%s`, not 1: the channel is not a linear '
                              'map of its input (an offset, a term that ignores the signal, or a power of it)' % (norm(val)[:70], sorted(ds), sig),
                              fn.path, n.lineno, operand='degree')
        if n_terms == 0:
            ctx.error('%s: nothing is stored into the returned array of %s (cannot tell)' % (rule, q))


def check(ctx: Ctx) -> None:
    M = ctx.model
    check_delays_applied(ctx, 'C03.j')
    check_linearity(ctx, 'C03.o')
    from ..idioms import check_block_loops_cover
    check_block_loops_cover(ctx, 'C03.k', [FA], floor=3)
    from ..idioms import check_flag_tests_agree
    check_flag_tests_agree(ctx, 'C03.l', [FA, SU, MU], floor=0)
    from ..idioms import check_accumulators_initialised
    check_accumulators_initialised(ctx, 'C03.m', [FA, SU, MU], floor=4)
    from ..units import check_units
    check_units(ctx, 'C03.n', [FA, SU, MU], floor=5)
    from ..idioms import check_no_alias_inplace
    check_no_alias_inplace(ctx, 'C03.p', [FA, SU, MU], floor=50)
    # ------------------------------------------------------------------ C03.a
    ctx.rule('C03.a', 'slice length is not floor(span/step)', floor=1)
    fn = M.func(FA, 'TdlChannel.corrupt_data_in_freq_domain')
    found = False
    for stmt, ok, why in slice_length_sites(fn):
        found = True
        if ok is None:
            ctx.error('C03.a: `%s` computes a length from slice.indices() in a form that is neither len(range(*...)) nor a '
                      'floor/ceil division (cannot tell)' % norm(stmt)[:90])
        construct = 'TdlChannel.corrupt_data_in_freq_domain:%s' % norm(stmt.targets[0])
        ctx.instance('C03.a', construct)
        ctx.obligation('C03.a', construct, ok, {'statement': norm(stmt), 'verdict': why})
        if not ok:
            ctx.violation('C03.a', 'TdlChannel.corrupt_data_in_freq_domain', 'block size is computed as `%s` (%s): for a slice whose '
                          'step does not divide its span (e.g. slice(0, 10, 3): 4 subcarriers, formula gives 3) the per-block '
                          'length is wrong' % (norm(stmt.value), why), fn.path, stmt.lineno, operand='slice-length')
    if not found:
        ctx.error('C03.a: no length computation over slice.indices() found (idiom unknown)')
    # ------------------------------------------------------------------ C03.b
    ctx.rule('C03.b', 'the reported impulse response is the one used', floor=2)
    cd = M.func(FA, 'TdlChannel.corrupt_data')
    it = _Reported(cd, ExcHierarchy(M))
    it.run(frozenset([0]))
    ctx.instance('C03.b', 'TdlChannel.corrupt_data')
    exits_ok = bool(it.exits) and all(st == frozenset([1]) for st, _ in it.exits)
    ok = exits_ok and not it.reads_before
    ctx.obligation('C03.b', 'TdlChannel.corrupt_data', ok, {'generate_calls_at_exits': [sorted(st) for st, _ in it.exits],
                                                             'reads_not_after_exactly_one_generate': len(it.reads_before)})
    if not ok:
        ctx.violation('C03.b', 'TdlChannel.corrupt_data', 'the output is not computed from exactly one freshly generated impulse '
                      'response (generate calls on exit paths %s, %d reads of the last response before/after a different count)'
                      % ([sorted(st) for st, _ in it.exits], len(it.reads_before)), cd.path, cd.lineno, operand='one-generate')
    # frequency domain: per iteration one generate, one append of get_last_impulse_response(); final store before return
    loops = [n for n in walk_no_nested(fn.node) if isinstance(n, ast.For)
             and any(isinstance(c, ast.Call) and is_self_attr(c.func, 'self') == 'generate_impulse_response' for c in ast.walk(n))]
    ctx.instance('C03.b', 'TdlChannel.corrupt_data_in_freq_domain')
    ok, detail = False, {}
    if len(loops) == 1:
        body = loops[0].body
        top_calls = [c for s in body if isinstance(s, (ast.Expr, ast.Assign)) for c in ast.walk(s) if isinstance(c, ast.Call)]
        gens = [c for c in top_calls if is_self_attr(c.func, 'self') == 'generate_impulse_response']
        apps = [c for c in top_calls if isinstance(c.func, ast.Attribute) and c.func.attr == 'append'
                and c.args and norm(c.args[0]) in ('self.get_last_impulse_response()', 'self._last_impulse_response')]
        all_gens = [c for c in ast.walk(loops[0]) if isinstance(c, ast.Call) and is_self_attr(c.func, 'self') == 'generate_impulse_response']
        lst = norm(apps[0].func.value) if apps else None
        order_ok = bool(gens and apps) and gens[0].lineno < apps[0].lineno
        store = [s for s in fn.node.body if isinstance(s, ast.Assign) and is_self_attr(s.targets[0], 'self') == '_last_impulse_response'
                 and isinstance(s.value, ast.Call) and norm(s.value.func).endswith('concatenate_samples')
                 and s.value.args and norm(s.value.args[0]) == lst and s.lineno > loops[0].end_lineno]
        rets = [s for s in walk_no_nested(fn.node) if isinstance(s, ast.Return)]
        ret_ok = len(rets) == 1 and bool(store) and rets[0].lineno > store[0].lineno
        detail = {'generate_per_block': len(all_gens), 'append_per_block': len(apps), 'generate_before_append': order_ok,
                  'concatenation_stored_before_return': ret_ok}
        ok = len(gens) == 1 and len(all_gens) == 1 and len(apps) == 1 and order_ok and ret_ok
    ctx.obligation('C03.b', 'TdlChannel.corrupt_data_in_freq_domain', ok, detail)
    if not ok:
        ctx.violation('C03.b', 'TdlChannel.corrupt_data_in_freq_domain', 'per block the response is not generated once, appended '
                      'once and the concatenation stored before the return (%s): the reported response is not the one applied'
                      % detail, fn.path, fn.lineno, operand='per-block')
    _check_pathloss(ctx)
    _check_superposition(ctx)
    _check_direction_aware_count(ctx)
    # ------------------------------------------------------------------ C03.e
    ctx.rule('C03.e', 'DSF: dense-tap memo cannot go stale; profile arrays frozen', floor=8)
    analyse_class(ctx, 'C03.e', TDL_IR, 'TdlImpulseResponse')
    init = M.func(FA, 'TdlChannelProfile.__init__')
    frozen = set()
    for n in walk_no_nested(init.node):
        if isinstance(n, ast.Assign) and isinstance(n.targets[0], ast.Subscript) and norm(n.targets[0].slice) == "'WRITEABLE'" \
                and isinstance(n.value, ast.Constant) and n.value.value is False:
            a = n.targets[0].value
            if isinstance(a, ast.Attribute) and a.attr == 'flags':
                x = is_self_attr(a.value, 'self')
                if x:
                    frozen.add(x)
        if isinstance(n, ast.Call) and isinstance(n.func, ast.Attribute) and n.func.attr == 'setflags':
            x = is_self_attr(n.func.value, 'self')
            if x:
                frozen.add(x)
    ctx.instance('C03.e', 'TdlChannelProfile.__init__:frozen')
    need = {'_tap_powers_dB', '_tap_powers_linear', '_tap_delays'}
    ok = need <= frozen
    ctx.obligation('C03.e', 'TdlChannelProfile.__init__:frozen', ok, {'frozen': sorted(frozen)})
    if not ok:
        ctx.violation('C03.e', 'TdlChannelProfile.__init__', 'profile arrays %s are not frozen: the shared profile can be edited under '
                      'a cached dense response' % sorted(need - frozen), init.path, init.lineno, operand='frozen')
    _check_discretize(ctx)

    from ..dsf import auto_memo_check
    ctx.rule('C03.g', 'no auto-discovered lazily filled cache of the classes in the anchored modules can be stale at the exit of a public method (dependencies = what the fill expression reads, incl. mutating calls on held sub-objects)', floor=6)
    auto_memo_check(ctx, 'C03.g', [FA, SU, 'pyphysim/channels/multiuser.py'],
                    skip_classes={'MultiUserChannelMatrix', 'MultiUserChannelMatrixExtInt'})


def _check_pathloss(ctx: Ctx) -> None:
    M = ctx.model
    ctx.rule('C03.c', 'SuChannel applies sqrt(path loss) identically to time output, frequency output and reported response', floor=3)
    want = T.parse_spec('sqrt(self._pathloss_value)')
    for meth, target in (('corrupt_data', 'corrupt_data'), ('corrupt_data_in_freq_domain', 'corrupt_data_in_freq_domain'),
                         ('get_last_impulse_response', 'get_last_impulse_response')):
        fn = M.func(SU, 'SuChannel.' + meth)
        construct = 'SuChannel.' + meth
        ctx.instance('C03.c', construct)
        fwd = [c for c in ast.walk(fn.node) if isinstance(c, ast.Call) and norm(c.func) == 'self._tdlchannel.' + target]
        factors: List[T.Term] = []
        guarded = True
        env = T.Env(M, fn)
        env.vars.update(T.local_terms(M, fn))
        for n in walk_no_nested(fn.node):
            f = None
            if isinstance(n, ast.AugAssign) and isinstance(n.op, ast.Mult):
                f = n.value
            elif isinstance(n, (ast.Return, ast.Assign)) and isinstance(n.value, ast.BinOp) and isinstance(n.value.op, ast.Mult):
                l, r = n.value.left, n.value.right
                fwd_names = {x.targets[0].id for x in walk_no_nested(fn.node) if isinstance(x, ast.Assign) and isinstance(x.targets[0], ast.Name)
                             and any(isinstance(c, ast.Call) and norm(c.func) == 'self._tdlchannel.' + target for c in ast.walk(x.value))}

                def is_fwd(e_: ast.AST) -> bool:
                    return any(isinstance(c, ast.Call) and norm(c.func) == 'self._tdlchannel.' + target for c in ast.walk(e_)) or \
                        (isinstance(e_, ast.Name) and e_.id in fwd_names)
                if is_fwd(r) and not is_fwd(l):
                    f = l
                elif is_fwd(l) and not is_fwd(r):
                    f = r
                elif isinstance(r, ast.Name):
                    f = l
                else:
                    f = r
            if f is None:
                continue
            try:
                factors.append(T.from_ast(f, env))
            except T.Unknown:
                factors.append(T.Term.sym('?'))
            # must sit on the `is not None` side
            g = _none_guard_side(fn, n)
            if g != 'not-none':
                guarded = False
        ok = bool(fwd) and len(factors) == 1 and factors[0] == want and guarded
        ctx.obligation('C03.c', construct, ok, {'forwards': len(fwd), 'factors': [f.pretty() for f in factors], 'under_not_None_guard': guarded})
        if not ok:
            ctx.violation('C03.c', construct, 'does not scale the forwarded result by exactly sqrt(self._pathloss_value) under the '
                          '`is not None` guard (factors %s, guarded=%s): output and reported impulse response disagree on the path '
                          'loss' % ([f.pretty() for f in factors], guarded), fn.path, fn.lineno, operand='factor')


def _none_guard_side(fn: FuncInfo, node: ast.AST) -> str:
    """'not-none' if node is only reachable when self._pathloss_value is not None."""
    def is_test(t, op):
        return isinstance(t, ast.Compare) and len(t.ops) == 1 and isinstance(t.ops[0], op) and \
            norm(t.left) == 'self._pathloss_value' and isinstance(t.comparators[0], ast.Constant) and t.comparators[0].value is None
    # inside `if X is not None:` body, or after `if X is None: return ...`
    for n in walk_no_nested(fn.node):
        if isinstance(n, ast.If):
            inside_body = any(node is x for s in n.body for x in ast.walk(s))
            inside_else = any(node is x for s in n.orelse for x in ast.walk(s))
            if is_test(n.test, ast.IsNot) and inside_body:
                return 'not-none'
            if is_test(n.test, ast.Is) and inside_else:
                return 'not-none'
            if is_test(n.test, ast.Is) and n.body and isinstance(n.body[-1], ast.Return) and getattr(node, 'lineno', 0) > n.end_lineno:
                return 'not-none'
    return 'unguarded'


def _check_superposition(ctx: Ctx) -> None:
    M = ctx.model
    ctx.rule('C03.d', 'MuChannel per-link superposition: matched indices, first term 0, loop 1..num_tx, transposed grid when switched', floor=4)
    for meth in ('corrupt_data', 'corrupt_data_in_freq_domain'):
        fn = M.func(MU, 'MuChannel.' + meth)
        construct = 'MuChannel.' + meth
        problems = []
        # the grid the links are picked from: the channel array, transposed exactly when the direction is switched
        # (symbolic value of the grid variable on every path reaching the first pick; any spelling of the selection)
        pick_nodes = [n for n in ast.walk(fn.node) if isinstance(n, ast.Assign) and isinstance(n.targets[0], ast.Name)
                      and isinstance(n.value, ast.Subscript) and isinstance(n.value.slice, ast.Tuple) and len(n.value.slice.elts) == 2
                      and isinstance(n.value.value, ast.Name)]
        gnames = {n.value.value.id for n in pick_nodes}
        # ... or used directly as the receiver of the call: `grid[rx, tx].corrupt_data(signal[tx])`
        direct = [n for n in ast.walk(fn.node) if isinstance(n, ast.Call) and isinstance(n.func, ast.Attribute) and n.func.attr == meth
                  and isinstance(n.func.value, ast.Subscript) and isinstance(n.func.value.slice, ast.Tuple) and len(n.func.value.slice.elts) == 2
                  and isinstance(n.func.value.value, ast.Name)]
        gnames |= {n.func.value.value.id for n in direct}
        if direct:
            from ..astutil import stmts_in_order as _sio
            holders = [s_ for s_ in _sio(fn) if not isinstance(s_, (ast.For, ast.While, ast.If, ast.With, ast.Try))
                       and any(x in direct for x in ast.walk(s_))]
            pick_nodes = pick_nodes + holders
        grid = None
        if len(gnames) != 1:
            ctx.error('C03.d: %s picks its link channels from %s (one grid variable expected; cannot tell)' % (construct, sorted(gnames)))
        grid = gnames.pop()
        from ..astutil import cond_values, stmts_in_order
        first_pick = [s for s in stmts_in_order(fn) if s in pick_nodes][0]
        try:
            paths = cond_values(fn, first_pick)
        except OverflowError:
            ctx.error('C03.d: too many paths before the first link pick in %s (cannot tell)' % construct)
        seen_sw = set()
        for conds, env in paths:
            sw = [c for c in conds if 'switched_direction' in c]
            val = norm(env[grid]) if grid in env else None
            if val is None or len(sw) != 1 or sw[0] not in ('self.switched_direction', 'not self.switched_direction'):
                ctx.error('C03.d: cannot trace the grid `%s` of %s back to the direction test (value %s under %s)'
                          % (grid, construct, val, list(conds)))
            switched = sw[0] == 'self.switched_direction'
            seen_sw.add(switched)
            want = 'self._su_siso_channels.T' if switched else 'self._su_siso_channels'
            if val.replace('.transpose()', '.T') != want:
                problems.append('grid is `%s` when the direction is %sswitched (expected %s)' % (val, '' if switched else 'not ', want))
        if seen_sw != {True, False}:
            problems.append('no grid selection on switched_direction')
        # channel picks and the calls
        picks: Dict[str, Tuple[str, str]] = {}
        loops = [n for n in walk_no_nested(fn.node) if isinstance(n, ast.For)]
        sites = []
        for n in ast.walk(fn.node):
            if isinstance(n, ast.Assign) and isinstance(n.targets[0], ast.Name) and isinstance(n.value, ast.Subscript) \
                    and norm(n.value.value) == (grid or '?') and isinstance(n.value.slice, ast.Tuple):
                picks[n.targets[0].id + '@%d' % n.lineno] = tuple(norm(e) for e in n.value.slice.elts)  # type: ignore
        for n in ast.walk(fn.node):
            if n in direct and norm(n.func.value.value) == grid:
                rx, tx = (norm(e_) for e_ in n.func.value.slice.elts)
                sig = n.args[0] if n.args else None
                k = norm(sig.slice) if isinstance(sig, ast.Subscript) and norm(sig.value) == 'signal' else None
                sites.append((n, rx, tx, k))
                ctx.instance('C03.d', '%s:link[%s]' % (construct, tx))
                if k != tx:
                    problems.append('channel column %s is fed signal row %s' % (tx, k))
                continue
            if isinstance(n, ast.Call) and isinstance(n.func, ast.Attribute) and n.func.attr == meth and isinstance(n.func.value, ast.Name):
                # nearest preceding pick of that name
                cands = [(int(k.split('@')[1]), v) for k, v in picks.items() if k.split('@')[0] == n.func.value.id and int(k.split('@')[1]) < n.lineno]
                if not cands:
                    problems.append('call at line %d uses a channel not taken from the grid' % n.lineno)
                    continue
                rx, tx = max(cands)[1]
                sig = n.args[0] if n.args else None
                k = norm(sig.slice) if isinstance(sig, ast.Subscript) and norm(sig.value) == 'signal' else None
                sites.append((n, rx, tx, k))
                ctx.instance('C03.d', '%s:link[%s]' % (construct, tx))
                if k != tx:
                    problems.append('channel column %s is fed signal row %s' % (tx, k))
        txs = sorted(s[2] for s in sites)
        # range(1, <a local bound to the second dimension of the grid / the number of transmitters>)
        def _is_tx_count(e_):
            if not isinstance(e_, ast.Name):
                return False
            for a_ in walk_no_nested(fn.node):
                if isinstance(a_, ast.Assign) and isinstance(a_.targets[0], (ast.Tuple, ast.List)) and len(a_.targets[0].elts) == 2 \
                        and isinstance(a_.targets[0].elts[1], ast.Name) and a_.targets[0].elts[1].id == e_.id and norm(a_.value).endswith('.shape'):
                    return True
            return e_.id in ('num_tx',)
        inner = [l for l in loops if isinstance(l.iter, ast.Call) and norm(l.iter.func) == 'range' and len(l.iter.args) == 2
                 and norm(l.iter.args[0]) == '1' and _is_tx_count(l.iter.args[1])]
        if len(sites) != 2 or '0' not in txs:
            problems.append('expected the first term with index 0 plus one looped term, found columns %s' % txs)
        if len(inner) != 1:
            problems.append('the accumulation loop is not range(1, num_tx)')
        else:
            acc = [n for n in ast.walk(inner[0]) if isinstance(n, ast.AugAssign) and isinstance(n.op, ast.Add)]
            if len(acc) != 1:
                problems.append('looped terms are not accumulated with +=')
        ok = not problems
        ctx.obligation('C03.d', construct, ok, {'links': [(s[1], s[2], s[3]) for s in sites], 'problems': problems})
        if not ok:
            ctx.violation('C03.d', construct, 'per-link superposition broken: %s' % '; '.join(problems), fn.path, fn.lineno,
                          operand='indices')


def _check_direction_aware_count(ctx: Ctx) -> None:
    """C03.i: whether a 1-D signal is 'one transmit stream' is decided by the transmit side of the CURRENT direction."""
    from ..astutil import cond_values
    M = ctx.model
    ctx.rule('C03.i', 'TdlChannel: the antenna count that decides if a 1-D signal is a single transmit stream is the receive-side count of the '
                      'generator when the direction is switched and the transmit-side count otherwise', floor=1)
    cls = M.cls('TdlChannel')
    cands = [f for f in cls.methods.values() if 'prepare_transmit_signal_shape' in f.name]
    if len(cands) != 1:
        ctx.error('C03.i: TdlChannel has %d prepare_transmit_signal_shape helpers (one expected; cannot tell)' % len(cands))
    fn = cands[0]
    sn = fn.self_name or 'self'
    ctx.instance('C03.i', fn.qualname)
    sig = [p for p in fn.params if p != sn][0]

    def getter_expr(attr: str):
        p = M.lookup_property(cls, attr)
        if p is None or p[0] is None:
            return None
        rets = [n.value for n in walk_no_nested(p[0].node) if isinstance(n, ast.Return) and n.value is not None]
        # the regular (MIMO) value; constant returns are the "no such dimension" sentinels
        real = [r for r in rets if not isinstance(r, (ast.Constant, ast.UnaryOp))]
        return real[0] if len(real) == 1 else None

    def axis_of(e: ast.AST):
        """index i if e is self._fading_generator.shape[i] (through count properties), else None"""
        a = is_self_attr(e, sn)
        if a is not None:
            g = getter_expr(a)
            return axis_of(g) if g is not None else None
        if isinstance(e, ast.Subscript) and isinstance(e.slice, ast.Constant) and norm(e.value).endswith('_fading_generator.shape'):
            return e.slice.value
        return None

    # decision procedure: the helper is executed symbolically for every truth assignment of the four atoms
    #   N  = `signal.ndim == 1`,  S = switched_direction,  T1 = (transmit-side count == 1),  R1 = (receive-side count == 1)
    # and must add the antenna axis exactly when  N and (R1 if S else T1)
    import itertools

    class CannotTell(Exception):
        pass

    def sym_of(e, env):
        """'tx' / 'rx' when e denotes the count of generator-shape axis 2 / 1, else None"""
        if isinstance(e, ast.Name) and e.id in env:
            return env[e.id]
        ax = axis_of(e)
        return {1: 'rx', 2: 'tx'}.get(ax)

    def truth(t, env, A):
        if isinstance(t, ast.UnaryOp) and isinstance(t.op, ast.Not):
            return not truth(t.operand, env, A)
        if isinstance(t, ast.BoolOp):
            vals = [truth(v, env, A) for v in t.values]
            return all(vals) if isinstance(t.op, ast.And) else any(vals)
        if is_self_attr(t, sn) == 'switched_direction' or (isinstance(t, ast.Name) and env.get(t.id) == 'S'):
            return A['S']
        if isinstance(t, ast.Name) and isinstance(env.get(t.id), tuple) and env[t.id][0] == 'bool':
            return env[t.id][1]
        if isinstance(t, ast.Compare) and len(t.ops) == 1 and isinstance(t.comparators[0], ast.Constant):
            c, op, l = t.comparators[0].value, t.ops[0], t.left
            if norm(l).replace(' ', '') == '%s.ndim' % sig and c in (1, 2) and isinstance(op, (ast.Eq, ast.NotEq)):
                v = A['N'] if c == 1 else not A['N']
                return v if isinstance(op, ast.Eq) else not v
            if (is_self_attr(l, sn) == 'switched_direction' or (isinstance(l, ast.Name) and env.get(l.id) == 'S')) and isinstance(c, bool):
                v = A['S'] == c
                return v if isinstance(op, (ast.Eq, ast.Is)) else not v
            # the analysis is about the MIMO generator (three shape axes); the SISO generator has no antenna counts
            if isinstance(l, ast.Call) and norm(l.func) == 'len' and l.args and norm(l.args[0]).endswith('_fading_generator.shape') \
                    and isinstance(op, (ast.Eq, ast.NotEq)):
                v = c == 3
                return v if isinstance(op, ast.Eq) else not v
            k = sym_of(l, env)
            if k in ('tx', 'rx') and c == 1 and isinstance(op, (ast.Eq, ast.NotEq)):
                v = A['T1'] if k == 'tx' else A['R1']
                return v if isinstance(op, ast.Eq) else not v
            if k in ('tx', 'rx') and c == 1 and isinstance(op, ast.Gt):
                return not (A['T1'] if k == 'tx' else A['R1'])
        raise CannotTell(norm(t)[:60])

    def run(body, env, A, st):
        for s_ in body:
            if isinstance(s_, ast.Expr) and isinstance(s_.value, ast.Constant):
                continue
            if isinstance(s_, ast.Assign) and len(s_.targets) == 1:
                tg, v = s_.targets[0], s_.value
                if isinstance(tg, ast.Name) and tg.id == sig:
                    if isinstance(v, ast.Call) and norm(v.func) in ('np.reshape', 'np.atleast_2d', 'np.expand_dims') or \
                            (isinstance(v, ast.Subscript) and any(isinstance(x, ast.Constant) and x.value is None for x in ast.walk(v.slice))) or \
                            (isinstance(v, ast.Call) and isinstance(v.func, ast.Attribute) and v.func.attr == 'reshape'):
                        st['reshaped'] = True
                        continue
                    raise CannotTell('store to the signal: ' + norm(s_)[:50])
                if isinstance(tg, ast.Name):
                    if is_self_attr(v, sn) == 'switched_direction':
                        env[tg.id] = 'S'
                    elif isinstance(v, (ast.Compare, ast.BoolOp)) or (isinstance(v, ast.UnaryOp) and isinstance(v.op, ast.Not)):
                        env[tg.id] = ('bool', truth(v, env, A))           # a named test: evaluated where it is bound
                    else:
                        env[tg.id] = sym_of(v, env)
                    continue
                if isinstance(tg, (ast.Tuple, ast.List)) and norm(v).endswith('_fading_generator.shape'):
                    for idx, x in enumerate(tg.elts):
                        if isinstance(x, ast.Name):
                            env[x.id] = {1: 'rx', 2: 'tx'}.get(idx)
                    continue
                if isinstance(tg, (ast.Tuple, ast.List)) and isinstance(v, (ast.Tuple, ast.List)) and len(v.elts) == len(tg.elts):
                    for x, xv in zip(tg.elts, v.elts):
                        if isinstance(x, ast.Name):
                            env[x.id] = sym_of(xv, env)
                    continue
                continue
            if isinstance(s_, ast.If):
                run(s_.body if truth(s_.test, env, A) else s_.orelse, env, A, st)
                if st.get('returned'):
                    return
                continue
            if isinstance(s_, ast.Return):
                st['returned'] = True
                return
            if isinstance(s_, (ast.Assert, ast.Pass, ast.AnnAssign)):
                continue
            raise CannotTell('statement ' + type(s_).__name__)

    problems = []
    try:
        for bits in itertools.product([False, True], repeat=4):
            A = dict(zip(('N', 'S', 'T1', 'R1'), bits))
            st: Dict = {}
            run(fn.node.body, {}, A, st)
            want = A['N'] and (A['R1'] if A['S'] else A['T1'])
            if bool(st.get('reshaped')) != want:
                problems.append('1-D signal=%s, switched=%s, transmit-side count==1: %s, receive-side count==1: %s -> antenna axis %s, should be %s'
                                % (A['N'], A['S'], A['T1'], A['R1'], 'added' if st.get('reshaped') else 'not added', 'added' if want else 'not added'))
    except CannotTell as e:
        ctx.error('C03.i: the single-stream decision of %s contains `%s`, which is not a test of signal.ndim, the direction flag or an antenna count '
                  'of the generator shape (cannot tell)' % (fn.qualname, e))
    ok = not problems
    ctx.obligation('C03.i', fn.qualname, ok, {'assignments_checked': 16, 'disagreements': problems[:4]})
    if not ok:
        ctx.violation('C03.i', fn.qualname, 'single-stream decision ignores the current direction: %s' % problems[0],
                      fn.path, fn.lineno, operand='direction-aware')


def _check_discretize(ctx: Ctx) -> None:
    M = ctx.model
    ctx.rule('C03.f', 'discretisation: unique rounded integer delays, accumulated colliding powers, normalised', floor=1)
    fn = M.func(FA, 'TdlChannelProfile._calc_discretized_tap_powers_and_delays')
    ctx.instance('C03.f', fn.qualname)
    uniq = [n for n in walk_no_nested(fn.node) if isinstance(n, ast.Call) and norm(n.func) == 'np.unique']
    if len(uniq) != 1:
        ctx.error('C03.f: delays are not obtained from a single np.unique call (cannot tell)')
    from ..astutil import expander as _expander_u
    u_txt = norm(_expander_u(fn)(uniq[0]))          # a rounded-delay vector named first is looked through
    rounded = any(k in u_txt for k in ('np.round(', 'np.rint(', 'np.around('))
    to_int = 'astype(int' in u_txt or 'dtype=int' in u_txt
    u_ok = rounded and to_int
    if not u_ok and not (to_int or any(k in u_txt for k in ('np.floor(', 'np.ceil(', 'np.trunc(', '//'))):
        ctx.error('C03.f: the delays handed to np.unique, `%s`, are neither rounded integers nor a recognisably wrong form (truncated / '
                  'floored): cannot tell' % u_txt[:80])
    inv_names = set()
    for n in walk_no_nested(fn.node):
        if isinstance(n, ast.Assign) and isinstance(n.targets[0], ast.Tuple) and n.value in uniq:
            inv_names |= {norm(e) for e in n.targets[0].elts[1:]}
    loc = {n.targets[0].id: norm(n.value) for n in ast.walk(fn.node) if isinstance(n, ast.Assign) and isinstance(n.targets[0], ast.Name)}

    def via_inverse(e: ast.AST) -> bool:
        s = norm(e)
        s = loc.get(s, s)
        return any(s == i or s.startswith(i + '[') for i in inv_names)

    good, bad = [], []
    for n in ast.walk(fn.node):
        if isinstance(n, ast.AugAssign) and isinstance(n.op, ast.Add) and isinstance(n.target, ast.Subscript) and via_inverse(n.target.slice):
            good.append('+= through the inverse index')
        if isinstance(n, ast.Assign) and isinstance(n.targets[0], ast.Subscript) and via_inverse(n.targets[0].slice):
            bad.append('plain assignment through the inverse index overwrites colliding taps: `%s`' % norm(n)[:70])
        if isinstance(n, ast.Call):
            f = norm(n.func)
            if f == 'np.add.at' and len(n.args) == 3 and via_inverse(n.args[1]):
                good.append('np.add.at')
            if f == 'np.bincount' and n.args and via_inverse(n.args[0]) and any(k.arg == 'weights' for k in n.keywords):
                good.append('np.bincount(weights=)')
            if f.endswith('.reduceat'):
                bad.append('reduceat sums CONTIGUOUS runs only: wrong when colliding taps are not adjacent (profile not sorted by delay): `%s`'
                           % norm(n)[:70])
    nrm = [n for n in ast.walk(fn.node) if (isinstance(n, ast.AugAssign) and isinstance(n.op, ast.Div) or
                                            isinstance(n, ast.BinOp) and isinstance(n.op, ast.Div))
           and 'sum(' in norm(n.value if isinstance(n, ast.AugAssign) else n.right)]
    if not good and not bad:
        ctx.error('C03.f: merging of colliding taps uses neither a recognised accumulation nor a recognisably wrong form (cannot tell)')
    ok = u_ok and bool(good) and not bad and bool(nrm)
    ctx.obligation('C03.f', fn.qualname, ok, {'unique_rounded_int_delays': u_ok, 'accumulation': good, 'wrong_forms': bad, 'normalised': bool(nrm)})
    if not ok:
        why = bad or (['delays are not np.unique(np.round(delay/Ts).astype(int))'] if not u_ok else []) or \
            (['powers are not divided by their sum'] if not nrm else ['no accumulation'])
        ctx.violation('C03.f', fn.qualname, 'discretisation does not merge colliding taps into normalised powers: %s' % '; '.join(why),
                      fn.path, fn.lineno, operand='merge')


def synthetic():
    from ..overlay import Overlay
    src = ('def f(sl, n):\n    idx = sl.indices(n)\n    k = (idx[1] - idx[0]) // idx[2]\n    return k\n'
           'def g(sl, n):\n    idx = sl.indices(n)\n    k = len(range(*idx))\n    return k\n')
    m = Model(Overlay({'pyphysim/syn.py': src}, '<syn>'))
    f = list(slice_length_sites(m.func('pyphysim/syn.py', 'f')))
    g = list(slice_length_sites(m.func('pyphysim/syn.py', 'g')))
    return [('floor-span-over-step', len(f) == 1 and not f[0][1]), ('len-range-accepted', len(g) == 1 and g[0][1])]


_CD = 'TdlChannel.corrupt_data'
MUTANTS = [
    Mutant('flat-response-shortcut-forgets-the-delay', FA, 'TdlImpulseResponse.get_freq_response',
           [('regex', r'(\n    freq_response = np\.fft\.fft)', r'\n    if self._tap_values_sparse.shape[0] == 1:\n        return np.repeat(self._tap_values_sparse.astype(complex), fft_size, axis=0)\1')],
           r'C03\.j:TdlImpulseResponse\.get_freq_response:return-without-delays'),
    Mutant('direction-branches-folded-with-a-lost-negation', FA, 'TdlChannel.__prepare_transmit_signal_shape',
           [('regex', r'    if self\.switched_direction:\n        if num_rx_ant == 1 and signal\.ndim == 1:\n            signal = np\.reshape\(signal, \(1, signal\.size\)\)\n    elif num_tx_ant == 1 and signal\.ndim == 1:\n        signal = np\.reshape\(signal, \(1, signal\.size\)\)',
             '    if (num_tx_ant == 1 or (num_rx_ant == 1 and not self.switched_direction)) and signal.ndim == 1:\n        signal = np.reshape(signal, (1, signal.size))')],
           r'C03\.i:TdlChannel\.__prepare_transmit_signal_shape'),
    Mutant('tap-applied-to-squared-signal', FA, 'TdlChannel.corrupt_data',
           [('replace', 'output[d:d + num_symbols] += tap_values_sparse[i] * signal', 'output[d:d + num_symbols] += tap_values_sparse[i] * signal * signal')],
           r'C03\.o:TdlChannel\.corrupt_data:degree'),
    Mutant('tap-offset-added-to-the-output', FA, 'TdlChannel.corrupt_data',
           [('replace', 'output[d:d + num_symbols] += tap_values_sparse[i] * signal', 'output[d:d + num_symbols] += tap_values_sparse[i] * signal + tap_values_sparse[i]')],
           r'C03\.o:TdlChannel\.corrupt_data:degree'),
    Mutant('discretised-powers-converted-twice', FA, 'TdlChannelProfile._calc_discretized_tap_powers_and_delays',
           [('replace', 'discretized_powers_dB = linear2dB(discretized_powers_linear)', 'discretized_powers_dB = linear2dB(linear2dB(discretized_powers_linear))')],
           r'C03\.n:TdlChannelProfile\._calc_discretized_tap_powers_and_delays'),
    Mutant('profile-keeps-levels-as-linear-powers', FA, 'TdlChannelProfile.__init__',
           [('regex', r'self\._tap_powers_linear(: np\.ndarray)? = dB2Linear\(tap_powers_dB\)', 'self._tap_powers_linear = tap_powers_dB')],
           r'C03\.n:TdlChannelProfile\.__init__'),
    Mutant('siso-accumulator-created-with-empty', FA, 'TdlChannel.corrupt_data',
           [('replace', 'output = np.zeros(num_symbols + channel_memory, dtype=complex)', 'output = np.empty(num_symbols + channel_memory, dtype=complex)')],
           r'C03\.m:TdlChannel\.corrupt_data:empty-accumulator:output'),
    Mutant('flat-fading-fast-path-drops-the-delay', FA, 'TdlChannel.corrupt_data',
           [('regex', r'(if len\(self\._fading_generator\.shape\) == 1:\n)', r'\1        if self.num_taps == 1:\n            return tap_values_sparse[0] * signal\n')],
           r'C03\.j:TdlChannel\.corrupt_data:return-without-delays'),
    Mutant('direction-flag-tested-by-identity-at-one-site', FA, 'TdlChannel.corrupt_data',
           [('replace', 'if self.switched_direction:', 'if self.switched_direction is True:')], r'C03\.l:.*flag:'),
    Mutant('freq-domain-remainder-guard-dropped', FA, 'TdlChannel.corrupt_data_in_freq_domain',
           [('regex', r'if num_symbols % block_size != 0:\n\s+raise ValueError\([^\n]*\)\n', 'pass\n')], r'C03\.k:TdlChannel\.corrupt_data_in_freq_domain'),
    Mutant('revert-fix-floor-division', FA, 'TdlChannel.corrupt_data_in_freq_domain',
           [('regex', r'block_size = len\(range\(\*indexes\)\)', 'block_size = (indexes[1] - indexes[0]) // indexes[2]')],
           r'C03\.a:TdlChannel\.corrupt_data_in_freq_domain'),
    Mutant('generate-twice-per-block', FA, 'TdlChannel.corrupt_data_in_freq_domain',
           [('regex', r'(\n(\s*)self\.generate_impulse_response\(1\))', r'\1\n\2self.generate_impulse_response(1)')],
           r'C03\.b:TdlChannel\.corrupt_data_in_freq_domain'),
    Mutant('drop-final-concatenation', FA, 'TdlChannel.corrupt_data_in_freq_domain',
           [('delete', r'self\._last_impulse_response = TdlImpulseResponse\.concatenate_samples')],
           r'C03\.b:TdlChannel\.corrupt_data_in_freq_domain'),
    Mutant('regenerate-after-use', FA, _CD,
           [('regex', r'\n    return output', '\n    self.generate_impulse_response(num_symbols)\n    return output')], r'C03\.b:TdlChannel\.corrupt_data'),
    Mutant('reported-response-scaled-without-sqrt', SU, 'SuChannel.get_last_impulse_response',
           [('replace', 'math.sqrt(self._pathloss_value) *', 'self._pathloss_value *')], r'C03\.c:SuChannel\.get_last_impulse_response'),
    Mutant('freq-output-not-scaled', SU, 'SuChannel.corrupt_data_in_freq_domain',
           [('delete', r'output \*= math\.sqrt\(self\._pathloss_value\)')], r'C03\.c:SuChannel\.corrupt_data_in_freq_domain'),
    Mutant('mu-signal-row-mismatch', MU, 'MuChannel.corrupt_data',
           [('replace', 'suchannel.corrupt_data(signal[tx])', 'suchannel.corrupt_data(signal[rx])')], r'C03\.d:MuChannel\.corrupt_data'),
    Mutant('mu-freq-no-transpose', MU, 'MuChannel.corrupt_data_in_freq_domain',
           [('replace', 'su_siso_channels = self._su_siso_channels.T', 'su_siso_channels = self._su_siso_channels')],
           r'C03\.d:MuChannel\.corrupt_data_in_freq_domain'),
    Mutant('discretize-overwrites-colliding-taps', FA, 'TdlChannelProfile._calc_discretized_tap_powers_and_delays',
           [('replace', 'discretized_powers_linear[discretized_idx] += v', 'discretized_powers_linear[discretized_idx] = v')],
           r'C03\.f:'),
    Mutant('benign-np-sqrt-in-pathloss', SU, 'SuChannel.get_last_impulse_response',
           [('replace', 'math.sqrt(self._pathloss_value)', 'np.sqrt(self._pathloss_value)')], None, benign=True),
    Mutant('benign-len-range-explicit', FA, 'TdlChannel.corrupt_data_in_freq_domain',
           [('regex', r'block_size = len\(range\(\*indexes\)\)', 'block_size = len(range(indexes[0], indexes[1], indexes[2]))')],
           None, benign=True),
]

ENGINES = ['model', 'paths', 'terms', 'dsf']
TECHNIQUE = ('static analysis: slice-length idiom, call-count path rule, sibling factor agreement as terms, index-pairing rule, '
             'derived-state freshness')


def sweep(overlay):
    from ..selftest import simple_statement, sweep_lines
    out = []
    for path, q in ((FA, 'TdlChannel.corrupt_data_in_freq_domain'), (SU, 'SuChannel.corrupt_data'),
                    (SU, 'SuChannel.corrupt_data_in_freq_domain'), (SU, 'SuChannel.get_last_impulse_response'),
                    (FA, 'TdlChannelProfile._calc_discretized_tap_powers_and_delays'), (FA, 'TdlChannelProfile.__init__')):
        out += sweep_lines(overlay, path, q, simple_statement, 'C03')
    return out
