"""C09 - block diagonalisation: structural clauses (domains, block arithmetic, power normalisers, pairing)."""
from __future__ import annotations

import ast
from typing import Dict, List, Optional, Set, Tuple

from .. import terms as T
from ..astutil import matmul_operands
from ..model import FuncInfo, Model, is_self_attr, norm, walk_no_nested
from ..report import Ctx
from ..selftest import Mutant

BD = 'pyphysim/comm/blockdiagonalization.py'

EXPLANATION = (
    'C09 is about numeric outputs of SVD/null-space/pinv computations, which no static argument bounds; what IS decided '
    'are the structural necessary conditions of its clauses. C09.a: the null space for user u is taken of the stacked '
    'channel of ALL other users (domain "all minus {u}") and the user\'s precoder is null-space-basis x inner factor, both '
    'for the same loop variable (else some user receives another user\'s streams). C09.b: per-user row/column blocks are '
    'cut with consistent arithmetic (stop - start == block width, as terms). C09.c: with water-filling the precoder is '
    'normalised by the running MAXIMUM over all users of the block Frobenius norms (never exceeds / reaches the per-user '
    'power for one transmitter); without it every block is scaled by sqrt(P)/its OWN norm; the external-interference '
    'variants divide precoder and equivalent channel by the same normaliser ||Ms_k P_k||_F / sqrt(P) of the very product '
    'that becomes the precoder (every user exactly its power). C09.d: the returned effective channel is channel x the '
    'returned precoder. C09.e: precoder, receive filter and stream count of a user are selected with the same index and '
    'stem from the same reduction matrix. C09.f: every metric name the setter accepts is dispatched to a variant that can '
    'handle it. Not decided: block diagonality, nulling of external interference, filter inversion as numbers.'
    ' General rules also applied here (see DESIGN 10.5): validate-before-commit (no `raise` reachable after the object was already changed in a public mutator).'
    ' C09.j: the joint receive filter of WhiteningBD times the unwhitened channel is the identity (matrix terms, newH = Wf Heq). C09.i/j decide filter inversion as an identity of terms, not as numbers.')


def _term(fn: FuncInfo, e: ast.AST, M: Model) -> T.Term:
    env = T.Env(M, fn)
    env.vars.update(T.local_terms(M, fn))
    return T.from_ast(e, env)


def check(ctx: Ctx) -> None:
    M = ctx.model
    ctx.assume('equal antennas per user (the property quantifies over that); np.dot/@ spellings; Frobenius norms via np.linalg.norm(., "fro")')
    from ..commit import check_family
    check_family(ctx, 'C09.g', ['BlockDiagonalizer'], floor=1)
    # ------------------------------------------------------------------ C09.i
    from .. import matterms as X
    ctx.rule('C09.i', 'the per-user receive filters invert the (projected) equivalent channel: W Heq = I as an identity of matrix terms '
                      '(pseudo-inverse contract on full-column-rank matrices; P-bar = projection onto the kept interference-free subspace)',
             floor=2)
    for cname, mname in (('BlockDiagonalizer', 'calc_receive_filter'), ('EnhancedBD', 'calc_receive_filter_user_k')):
        fnr = M.lookup_method(M.cls(cname), mname)
        if fnr is None:
            ctx.error('C09.i: %s.%s vanished' % (cname, mname))
        cases = [('plain', [X.Val('mat', X.MT.sym('Heq'))])]
        if len([p_ for p_ in fnr.params if p_ not in ('self', 'cls')]) > 1:
            cases = [('no projection', [X.Val('mat', X.MT.sym('Heq')), X.Val('none')]),
                     ('with projection', [X.Val('mat', X.MT.sym('Heq')), X.Val('mat', X.MT.sym('Pk'))])]
        for label, args in cases:
            construct = '%s.%s:%s' % (cname, mname, label)
            ctx.instance('C09.i', construct)
            cx = X.Ctx()
            itx = X.MatInterp(M, cx, M.cls(cname))
            try:
                w = itx.call_function(fnr, args, {})
                if w.kind != 'mat':
                    raise X.Unknown('the filter is a %s' % w.kind)
                okx, l, r = X.proves(X.mul(w.v, X.MT.sym('Heq'), cx), X.MT.identity(), cx)
            except X.Unknown as e:
                ctx.error('C09.i: cannot extract the matrix term of %s (%s): cannot tell' % (fnr.qualname, e))
            ctx.obligation('C09.i', construct, okx, {'filter': w.v.pretty(), 'filter_times_channel': l.pretty()})
            if not okx:
                ctx.violation('C09.i', fnr.qualname, 'the receive filter `%s` times the equivalent channel normalises to `%s`, not to the identity: '
                              'the streams of the user are not recovered' % (w.v.pretty()[:90], l.pretty()[:90]), fnr.path, fnr.lineno,
                              operand='inverts:' + label.replace(' ', '-'))
    # ------------------------------------------------------------------ C09.j
    ctx.rule('C09.j', 'WhiteningBD: the joint receive filter applied to the UNWHITENED channel inverts it: with newH = Wf Heq, '
                      'big_W Heq = I as an identity of matrix terms (so the whitening filter multiplies on the channel side)', floor=1)
    wfn = M.lookup_method(M.cls('WhiteningBD'), '_calc_receive_filter_with_whitening')
    if wfn is None:
        ctx.error('C09.j: WhiteningBD._calc_receive_filter_with_whitening vanished')
    ctx.instance('C09.j', wfn.qualname)
    wpar = [p_ for p_ in wfn.params if p_ not in ('self', 'cls')]
    split = [(i, c) for i, st in enumerate(wfn.node.body) for c in ast.walk(st)
             if isinstance(c, ast.Call) and norm(c.func).split('.')[-1] == 'single_matrix_to_matrix_of_matrices' and c.args]
    if len(wpar) < 2 or not split:
        ctx.error('C09.j: %s no longer splits one joint filter with single_matrix_to_matrix_of_matrices (cannot tell)' % wfn.qualname)
    cx = X.Ctx()
    itx = X.MatInterp(M, cx, M.cls('WhiteningBD'))
    Wf, Heq = X.MT.sym('Wf'), X.MT.sym('Heq')
    env = {wpar[0]: X.Val('mat', X.mul(Wf, Heq, cx)), wpar[1]: X.Val('mat', Wf)}
    for p_ in wpar[2:]:
        env[p_] = X.Val('opaque')
    try:
        need = {n_.id for n_ in ast.walk(split[0][1].args[0]) if isinstance(n_, ast.Name)}
        keep = []
        for st in reversed(wfn.node.body[:split[0][0]]):
            tg = {n_.id for n_ in ast.walk(st) if isinstance(n_, ast.Name) and isinstance(n_.ctx, ast.Store)}
            if tg & need:
                keep.append(st)
                need |= {n_.id for n_ in ast.walk(st) if isinstance(n_, ast.Name) and isinstance(n_.ctx, ast.Load)}
        itx.block(keep[::-1], env, wfn)
        w = itx.ev(split[0][1].args[0], env, wfn)
        if w.kind != 'mat':
            raise X.Unknown('the joint filter is a %s' % w.kind)
        okx, l, r = X.proves(X.mul(w.v, Heq, cx), X.MT.identity(), cx)
    except X.Unknown as e:
        ctx.error('C09.j: cannot extract the matrix term of the joint filter in %s (%s): cannot tell' % (wfn.qualname, e))
    ctx.obligation('C09.j', wfn.qualname, okx, {'filter': w.v.pretty(), 'filter_times_channel': l.pretty()})
    if not okx:
        ctx.violation('C09.j', wfn.qualname, 'the joint receive filter `%s` times the unwhitened channel normalises to `%s`, not to the identity'
                      % (w.v.pretty()[:90], l.pretty()[:90]), wfn.path, split[0][1].lineno, operand='inverts-unwhitened')
    # ------------------------------------------------------------------ C09.k
    from ..dsf import must_store_on_all_paths
    ctx.rule('C09.k', 'the metric setter of EnhancedBD stores its coupled attributes (metric name, metric function, extra arguments) on EVERY '
                      'normal path: a path that returns without storing one of them keeps the value of the previous call (a re-configuration '
                      'with the same metric name and new arguments must take effect)', floor=2)
    ecls = M.cls('EnhancedBD')
    sfn = M.lookup_method(ecls, 'set_ext_int_handling_metric')
    if sfn is None:
        ctx.error('C09.k: EnhancedBD.set_ext_int_handling_metric vanished')
    coupled = sorted({is_self_attr(t_, sfn.self_name or 'self') for n_ in walk_no_nested(sfn.node) if isinstance(n_, ast.Assign)
                      for t_ in n_.targets if is_self_attr(t_, sfn.self_name or 'self')})
    if len(coupled) < 2:
        ctx.error('C09.k: the metric setter stores %s (two or more coupled attributes expected; cannot tell)' % coupled)
    for a_ in coupled:
        construct = 'EnhancedBD.set_ext_int_handling_metric:' + a_
        ctx.instance('C09.k', construct)
        okk, _f = must_store_on_all_paths(M, ecls, 'set_ext_int_handling_metric', a_)
        ctx.obligation('C09.k', construct, okk, {'attribute': a_, 'coupled_with': [c_ for c_ in coupled if c_ != a_]})
        if not okk:
            ctx.violation('C09.k', 'EnhancedBD.set_ext_int_handling_metric', 'a normal exit is reachable without a store to `%s`, which the other '
                          'paths store together with %s: the previous value survives a re-configuration' % (a_, [c_ for c_ in coupled if c_ != a_]),
                          sfn.path, sfn.lineno, operand='coupled:' + a_)
    # ------------------------------------------------------------------ C09.h
    ctx.rule('C09.h', 'receive filters are formed with the PSEUDO-inverse of the effective channel: water-filling may give a stream zero power '
                      '(a zero column), for which inv/solve raise while pinv still inverts every powered stream', floor=2)
    for fnq in [q for q in ('BlockDiagonalizer.calc_receive_filter', 'BDWithExtIntBase.calc_receive_filter_user_k',
                            'EnhancedBD.calc_receive_filter_user_k', 'WhiteningBD.calc_receive_filter_user_k')]:
        cname, mname = fnq.split('.')
        if cname not in M.classes or mname not in M.cls(cname).methods:
            continue
        fn = M.cls(cname).methods[mname]
        ctx.instance('C09.h', fnq)
        invs = [c for c in walk_no_nested(fn.node) if isinstance(c, ast.Call) and norm(c.func).split('.')[-1] in ('inv', 'pinv', 'solve', 'lstsq')
                and 'linalg' in norm(c.func)]
        if not invs:
            ctx.error('C09.h: %s no longer inverts the effective channel with a numpy.linalg routine (cannot tell)' % fnq)
        bad = [norm(c.func) for c in invs if norm(c.func).split('.')[-1] in ('inv', 'solve')]
        ctx.obligation('C09.h', fnq, not bad, {'inversions': [norm(c.func) for c in invs]})
        if bad:
            ctx.violation('C09.h', fnq, 'the receive filter is formed with %s: with a zero-power stream the effective channel is singular and the '
                          'filter cannot be computed (the pseudo-inverse inverts the streams that were given power)' % bad, fn.path, invs[0].lineno,
                          operand='pinv')
    # ------------------------------------------------------------------ C09.a
    ctx.rule('C09.a', 'null space of ALL other users, precoder = null-space basis x inner factor, same user index', floor=2)
    tf = M.func(BD, 'BlockDiagonalizer._get_tilde_channel')
    ctx.instance('C09.a', 'BlockDiagonalizer._get_tilde_channel')
    up = [p for p in tf.params if p not in ('self', 'mtChannel')][0]
    from ..astutil import all_but_one, expander
    ex = expander(tf)
    call = [c for c in ast.walk(tf.node) if isinstance(c, ast.Call) and is_self_attr(c.func, 'self') == '_get_sub_channel']
    if len(call) != 1 or len(call[0].args) != 2:
        ctx.error('C09.a: _get_tilde_channel no longer obtains the stacked channel from one _get_sub_channel(channel, users) call (cannot tell)')
    sel = all_but_one(call[0].args[1], ex)
    if sel is None:
        ctx.error('C09.a: the users whose channels are stacked, `%s`, are not selected in a recognised "all users except one" form (cannot tell)'
                  % norm(ex(call[0].args[1]))[:80])
    detail = {'selection': norm(ex(call[0].args[1]))[:90], 'recognised_as': list(sel)}
    ok = sel[0] == 'ok' and sel[1] in ('self.num_users', 'self._iNUsers', 'self.K') and sel[2] == up
    ctx.obligation('C09.a', 'BlockDiagonalizer._get_tilde_channel', ok, detail)
    if not ok:
        why = sel[1] if sel[0] == 'bad' else 'it is {0..%s-1} minus {%s}, not all %s users minus {%s}' % (sel[1], sel[2], 'self.num_users', up)
        ctx.violation('C09.a', 'BlockDiagonalizer._get_tilde_channel', 'the stacked channel is not that of all users except `%s` (%s): the '
                      'precoder is then not in the null space of some other user' % (up, why), tf.path, tf.lineno, operand='domain')
    bf = M.func(BD, 'BlockDiagonalizer._calc_BD_matrix_no_power_scaling')
    ctx.instance('C09.a', 'BlockDiagonalizer._calc_BD_matrix_no_power_scaling')
    loops = [n for n in walk_no_nested(bf.node) if isinstance(n, ast.For)]
    problems = []
    if len(loops) != 1 or norm(loops[0].iter).replace(' ', '') not in ('range(0,self.num_users)', 'range(self.num_users)'):
        problems.append('the per-user loop is not over range(num_users)')
    else:
        l = loops[0]
        u = norm(l.target)
        lloc = {n.targets[0].id: n.value for n in ast.walk(l) if isinstance(n, ast.Assign) and isinstance(n.targets[0], ast.Name)}
        for name in ('_get_tilde_channel', '_get_sub_channel'):
            cs = [c for c in ast.walk(l) if isinstance(c, ast.Call) and is_self_attr(c.func, 'self') == name]
            if len(cs) != 1 or [norm(a) for a in cs[0].args][1:] != [u]:
                problems.append('%s is not called once with the loop user %s' % (name, u))
        apps = [c for c in ast.walk(l) if isinstance(c, ast.Call) and isinstance(c.func, ast.Attribute) and c.func.attr == 'append'
                and matmul_operands(c.args[0]) is not None]
        if len(apps) != 1:
            problems.append('the user precoder is not appended as one product')
        else:
            a, b = matmul_operands(apps[0].args[0])
            # left factor: the null-space basis computed from the tilde channel

            def from_tilde(e, depth=0):
                if depth > 4:
                    return False
                if any(isinstance(c, ast.Call) and is_self_attr(c.func, 'self') == '_get_tilde_channel' for c in ast.walk(e)):
                    return True
                return any(isinstance(x, ast.Name) and x.id in lloc and from_tilde(lloc[x.id], depth + 1) for x in ast.walk(e))
            if not from_tilde(a):
                problems.append('the left factor `%s` of the precoder is not the null-space basis of the other users' % norm(a))
            for nm in ast.walk(apps[0].args[0]):
                pass
    ctx.obligation('C09.a', 'BlockDiagonalizer._calc_BD_matrix_no_power_scaling', not problems, {'problems': problems})
    if problems:
        ctx.violation('C09.a', 'BlockDiagonalizer._calc_BD_matrix_no_power_scaling', '; '.join(problems), bf.path, bf.lineno, operand='per-user')
    _check_blocks(ctx)
    _check_normalisers(ctx)
    _check_pairing(ctx)
    _check_dispatch(ctx)


def _slice_width(fn: FuncInfo, sl: ast.Slice, M: Model) -> Optional[T.Term]:
    if sl.lower is None or sl.upper is None:
        return None
    try:
        return _term(fn, sl.upper, M) - _term(fn, sl.lower, M)
    except T.Unknown:
        return None


def _width_local(fn: FuncInfo) -> Optional[str]:
    """the local bound once to `<something> // <number of users>` (the per-user block width), whatever it is called"""
    cands = [n.targets[0].id for n in walk_no_nested(fn.node) if isinstance(n, ast.Assign) and len(n.targets) == 1
             and isinstance(n.targets[0], ast.Name) and isinstance(n.value, ast.BinOp) and isinstance(n.value.op, ast.FloorDiv)
             and norm(n.value.right) in ('self.num_users', 'self._iNUsers', 'self.K', 'num_users')]
    return cands[0] if len(set(cands)) == 1 else None



def _check_blocks(ctx: Ctx) -> None:
    M = ctx.model
    ctx.rule('C09.b', 'per-user blocks: stop - start equals the block width (terms)', floor=5)
    # row ranges in _get_sub_channel
    fn = M.func(BD, 'BlockDiagonalizer._get_sub_channel')
    ranges = [c for c in ast.walk(fn.node) if isinstance(c, ast.Call) and norm(c.func) == 'range' and len(c.args) == 2]
    WN = _width_local(fn)
    if WN is None:
        ctx.error('C09.b: _get_sub_channel no longer names the block height <rows> // <number of users> in one local (cannot tell)')
    for i, c in enumerate(ranges):
        construct = 'BlockDiagonalizer._get_sub_channel:range#%d' % i
        ctx.instance('C09.b', construct)
        try:
            lo, up = _term(fn, c.args[0], M), _term(fn, c.args[1], M)
            w = up - lo
            idx = [n for n in ast.walk(c.args[0]) if isinstance(n, ast.Name) and n.id not in (WN,)]
            ok = w == T.Term.sym(WN) and bool(idx) and lo == T.Term.sym(WN) * T.Term.sym(idx[0].id)
            ws = w.pretty()
        except T.Unknown as e:
            ok, ws = False, str(e)
        ctx.obligation('C09.b', construct, ok, {'range': norm(c), 'width': ws})
        if not ok:
            ctx.violation('C09.b', 'BlockDiagonalizer._get_sub_channel', 'rows of a user are `%s` (width %s), not iNrU*u .. iNrU*(u+1)'
                          % (norm(c), ws), fn.path, c.lineno, operand='rows')
    if not ranges:
        ctx.error('C09.b: row ranges of _get_sub_channel not found')
    wdef = [n for n in walk_no_nested(fn.node) if isinstance(n, ast.Assign) and norm(n.targets[0]) == WN]
    from ..astutil import expander as _exp_w
    ok = len(wdef) == 1 and norm(_exp_w(fn)(wdef[0].value)).replace(' ', '') in ('%s.shape[0]//self.num_users' % fn.params[1] if len(fn.params) > 1 else '',
                                                                                  'mt_channel.shape[0]//self.num_users')
    ctx.instance('C09.b', 'BlockDiagonalizer._get_sub_channel:width')
    ctx.obligation('C09.b', 'BlockDiagonalizer._get_sub_channel:width', ok, {'definition': [norm(w_) for w_ in wdef]})
    if not ok:
        ctx.violation('C09.b', 'BlockDiagonalizer._get_sub_channel', 'the block height is not rows // num_users', fn.path, fn.lineno, operand='width')
    # column blocks in the two normalisation loops
    for q, wname in (('BlockDiagonalizer._perform_normalized_waterfilling_power_scaling', 'iNtU'),
                     ('BlockDiagonalizer.block_diagonalize_no_waterfilling', 'iNtU')):
        fn = M.func(BD, q)
        wname = _width_local(fn) or wname
        sls = [n for n in ast.walk(fn.node) if isinstance(n, ast.Slice) and n.lower is not None and n.upper is not None]
        for i, sl in enumerate(sls):
            construct = '%s:slice#%d' % (q, i)
            ctx.instance('C09.b', construct)
            w = _slice_width(fn, sl, M)
            ok = w is not None and w == T.Term.sym(wname)
            ctx.obligation('C09.b', construct, ok, {'slice': norm(sl), 'width': w.pretty() if w is not None else None})
            if not ok:
                ctx.violation('C09.b', q, 'the column block `%s` is not %s wide' % (norm(sl), wname), fn.path, sl.lower.lineno, operand='columns')
        if q.endswith('no_waterfilling'):
            # what is read is what is written back
            texts = {norm(sl) for sl in sls}
            ctx.instance('C09.b', q + ':read-write')
            ctx.obligation('C09.b', q + ':read-write', len(texts) == 1, {'slices': sorted(texts)})
            if len(texts) != 1:
                ctx.violation('C09.b', q, 'the block read (%s) differs from the block written back' % sorted(texts), fn.path, fn.lineno,
                              operand='read-write')


def _check_normalisers(ctx: Ctx) -> None:
    M = ctx.model
    ctx.rule('C09.c', 'power normalisers: running maximum over all users / own norm / same exact-power normaliser on precoder and channel', floor=4)
    # with water-filling
    q = 'BlockDiagonalizer._perform_normalized_waterfilling_power_scaling'
    fn = M.func(BD, q)
    ctx.instance('C09.c', q)
    problems = []
    loops = [n for n in walk_no_nested(fn.node) if isinstance(n, ast.For)]
    if not loops:
        # comprehension form: m = max([0] + [||block_u||_F for u in range(num_users)])
        from ..astutil import expander
        ex = expander(fn)
        mxs = [n for n in walk_no_nested(fn.node) if isinstance(n, ast.Assign) and isinstance(n.targets[0], ast.Name)
               and isinstance(n.value, ast.Call) and norm(n.value.func) in ('max', 'np.max', 'np.amax')]
        ok_form = False
        if len(mxs) == 1:
            arg = ex(mxs[0].value.args[0]) if mxs[0].value.args else None
            comps = [c for c in ast.walk(arg) if isinstance(c, (ast.ListComp, ast.GeneratorExp))] if arg is not None else []
            if len(comps) == 1 and len(comps[0].generators) == 1 and not comps[0].generators[0].ifs \
                    and norm(comps[0].generators[0].iter).replace(' ', '') in ('range(0,self.num_users)', 'range(self.num_users)'):
                e_ = comps[0].elt
                if isinstance(e_, ast.Call) and norm(e_.func) == 'np.linalg.norm' and len(e_.args) >= 2 and isinstance(e_.args[1], ast.Constant) \
                        and e_.args[1].value == 'fro':
                    ok_form = True
        if not ok_form:
            ctx.error('C09.c: %s takes its maximum neither in a loop over range(num_users) nor as max over a comprehension of Frobenius '
                      'norms over range(num_users) (cannot tell)' % q)
        mx = mxs[0].targets[0].id
        rets = [n for n in walk_no_nested(fn.node) if isinstance(n, ast.Return)]
        try:
            from ..astutil import stmts_in_order
            base = [n for n in stmts_in_order(fn) if isinstance(n, ast.Assign) and rets and norm(n.targets[0]) == norm(rets[0].value)]
            env = T.Env(M, fn)
            gt = T.from_ast(base[-1].value if base else rets[0].value, env)
            # the scaled quantity is X * sqrt(iPu) / max for some X
            sg = gt.single()
            exps = {a: e for a, e in sg[0]} if sg is not None else {}
            ok_scale = sg is not None and sg[1] == 1 and exps.get(('sym', mx)) == -1 and exps.get(('sym', 'self.iPu')) == T.Fraction(1, 2) \
                and len(exps) == 3
            if not ok_scale:
                problems.append('the precoder is scaled by `%s`, not by sqrt(iPu)/max' % gt.pretty()[:60])
        except (T.Unknown, IndexError) as e:
            ctx.error('C09.c: %s: scaling not recognised (%s): cannot tell' % (q, e))
    elif len(loops) != 1 or norm(loops[0].iter).replace(' ', '') not in ('range(0,self.num_users)', 'range(self.num_users)'):
        problems.append('the maximum is not taken over range(num_users)')
    else:
        l = loops[0]
        ifs = [n for n in ast.walk(l) if isinstance(n, ast.If)]
        mx = None
        if len(ifs) == 1 and isinstance(ifs[0].test, ast.Compare) and len(ifs[0].test.ops) == 1:
            t = ifs[0].test
            a, b = norm(t.left), norm(t.comparators[0])
            body = ifs[0].body[0] if len(ifs[0].body) == 1 and isinstance(ifs[0].body[0], ast.Assign) else None
            if body is not None:
                tgt, val = norm(body.targets[0]), norm(body.value)
                if isinstance(t.ops[0], (ast.Gt, ast.GtE)) and (a, b) == (val, tgt):
                    mx = tgt
                if isinstance(t.ops[0], (ast.Lt, ast.LtE)) and (b, a) == (val, tgt):
                    mx = tgt
        usesmax = any(isinstance(c, ast.Call) and norm(c.func) in ('max', 'np.max', 'np.maximum') for c in ast.walk(fn.node))
        if mx is None and not usesmax:
            problems.append('no running maximum (`if cur > m: m = cur`) over the users')
        norms = [c for c in ast.walk(l) if isinstance(c, ast.Call) and norm(c.func) == 'np.linalg.norm' and len(c.args) >= 2
                 and isinstance(c.args[1], ast.Constant) and c.args[1].value == 'fro']
        if len(norms) != 1:
            problems.append('the per-user quantity is not one Frobenius norm')
        if mx is not None:
            init = [n for n in walk_no_nested(fn.node) if isinstance(n, ast.Assign) and norm(n.targets[0]) == mx and n.lineno < l.lineno]
            if not init or norm(init[-1].value) not in ('0', '0.0'):
                problems.append('the running maximum does not start at 0')
            rets = [n for n in walk_no_nested(fn.node) if isinstance(n, ast.Return)]
            try:
                got = _term(fn, rets[0].value, M)
                base = sorted((n for n in walk_no_nested(fn.node) if isinstance(n, ast.Assign) and norm(n.targets[0]) == norm(rets[0].value)),
                              key=lambda n: n.lineno)
                last = base[-1].value
                env = T.Env(M, fn)
                gt = T.from_ast(last, env)
                want = T.parse_spec('X * sqrt(self.iPu) / M_', X=T.Term.sym(norm(rets[0].value)), M_=T.Term.sym(mx))
                if gt != want:
                    problems.append('the precoder is scaled by `%s`, not by sqrt(iPu)/max' % norm(last))
            except (T.Unknown, IndexError) as e:
                problems.append('scaling not recognised: %s' % e)
    ctx.obligation('C09.c', q, not problems, {'problems': problems})
    if problems:
        ctx.violation('C09.c', q, '; '.join(problems) + ': some transmitter can exceed its power, or none reaches it', fn.path, fn.lineno,
                      operand='max-normaliser')
    # without water-filling: own norm
    q = 'BlockDiagonalizer.block_diagonalize_no_waterfilling'
    fn = M.func(BD, q)
    ctx.instance('C09.c', q)
    problems = []
    loops = [n for n in walk_no_nested(fn.node) if isinstance(n, ast.For)]
    if len(loops) != 1 or norm(loops[0].iter).replace(' ', '') not in ('range(0,self.num_users)', 'range(self.num_users)'):
        problems.append('not every user block is normalised (loop is not range(num_users))')
    else:
        l = loops[0]
        lloc = {n.targets[0].id: n.value for n in ast.walk(l) if isinstance(n, ast.Assign) and isinstance(n.targets[0], ast.Name)}
        st = [n for n in ast.walk(l) if isinstance(n, ast.Assign) and isinstance(n.targets[0], ast.Subscript)]
        if len(st) != 1:
            problems.append('the normalised block is not stored once per user')
        else:
            try:
                # the loop body's locals are expanded; every block `X[...]` becomes a symbol B<k> and every Frobenius norm of a block the
                # symbol N<k> of that block, so `B * sqrt(iPu) / ||B||_F` is recognised however the pieces were named
                from ..astutil import expand
                import copy as _copy
                from ..astutil import sequential_defs
                seq_defs = sequential_defs(l.body[:l.body.index(st[0])] if st[0] in l.body else l.body)
                full = expand(st[0].value, seq_defs)
                blocks_: Dict[str, str] = {}

                class Sym(ast.NodeTransformer):
                    def visit_Call(self, c):
                        if norm(c.func) == 'np.linalg.norm' and c.args:
                            if not (len(c.args) >= 2 and isinstance(c.args[1], ast.Constant) and c.args[1].value == 'fro'):
                                raise T.Unknown('a norm that is not the Frobenius norm: %s' % norm(c)[:50])
                            key = norm(c.args[0]).replace(' ', '')
                            k = blocks_.setdefault(key, 'B%d' % len(blocks_))
                            return ast.copy_location(ast.Name(id='N_' + k, ctx=ast.Load()), c)
                        self.generic_visit(c)
                        return c

                    def visit_Subscript(self, sub):
                        key = norm(sub).replace(' ', '')
                        k = blocks_.setdefault(key, 'B%d' % len(blocks_))
                        return ast.copy_location(ast.Name(id=k, ctx=ast.Load()), sub)
                symd = Sym().visit(_copy.deepcopy(full))
                val = T.from_ast(ast.fix_missing_locations(symd), T.Env(M, None))
                okv = any(val == T.parse_spec('B * sqrt(self.iPu) / N_', B=T.Term.sym(k), N_=T.Term.sym('N_' + k)) for k in blocks_.values())
                if not okv:
                    problems.append('a block is scaled by `%s`, not by sqrt(iPu) / its own Frobenius norm' % norm(full)[:90])
            except T.Unknown as e:
                ctx.error('C09.c: %s: the scaling of the user block is not recognised (%s): cannot tell' % (q, e))
    ctx.obligation('C09.c', q, not problems, {'problems': problems})
    if problems:
        ctx.violation('C09.c', q, '; '.join(problems), fn.path, fn.lineno, operand='own-norm')
    # external-interference variants: one exact-power normaliser on precoder and equivalent channel
    for q in ('EnhancedBD._perform_BD_no_waterfilling_fixed_or_naive_reduction', 'EnhancedBD._perform_BD_no_waterfilling_decide_number_streams'):
        fn = M.func(BD, q)
        ctx.instance('C09.c', q)
        problems = []
        # the normaliser is recognised by SHAPE: <name> = np.linalg.norm(<product>, 'fro') / np.sqrt(self.iPu)
        cands = []
        for n in ast.walk(fn.node):
            if isinstance(n, ast.Assign) and isinstance(n.targets[0], ast.Name) and isinstance(n.value, ast.BinOp) and isinstance(n.value.op, ast.Div):
                m = n.value.left
                if isinstance(m, ast.Call) and norm(m.func) == 'np.linalg.norm' and m.args:
                    cands.append((n.targets[0].id, m, n.value.right))
        if len(cands) == 0:
            # recognisably wrong: the stored precoder is divided by something that contains no norm at all (its power is then whatever the
            # product happens to have - exactly the budget only for a single orthonormal column)
            from ..astutil import expander as _expander
            _ex = _expander(fn)
            rets_ = [n for n in walk_no_nested(fn.node) if isinstance(n, ast.Return) and isinstance(n.value, ast.Tuple)]
            if len(rets_) == 1:
                prec_ = norm(rets_[0].value.elts[0])
                st_ = [n for n in ast.walk(fn.node) if isinstance(n, ast.Assign) and isinstance(n.targets[0], ast.Subscript)
                       and norm(n.targets[0].value) == prec_ and isinstance(n.value, ast.BinOp) and isinstance(n.value.op, ast.Div)]
                if len(st_) == 1:
                    den_ = _ex(st_[0].value.right)
                    if not any(isinstance(x, ast.Call) and 'norm' in norm(x.func) for x in ast.walk(den_)) and \
                            not any(isinstance(x, ast.Call) and norm(x.func) in ('np.trace', 'np.sum', 'np.vdot') for x in ast.walk(den_)):
                        ctx.obligation('C09.c', q, False, {'stored': norm(st_[0])[:90], 'divisor': norm(den_)[:60]})
                        ctx.violation('C09.c', q, 'the user precoder `%s` is divided by `%s`, which does not contain the norm of that precoder: the user '
                                      'transmits ||precoder||^2 x iPu, its exact power only when the reduced precoder happens to have unit norm (one '
                                      'stream)' % (norm(st_[0].value.left)[:40], norm(den_)[:50]), fn.path, st_[0].lineno, operand='exact-power')
                        continue
        if len(cands) != 1:
            ctx.error('C09.c: %s: expected one normaliser of the form ||X||_F / sqrt(P), found %d (cannot tell)' % (q, len(cands)))
        nname, m, den = cands[0]
        fro = len(m.args) >= 2 and isinstance(m.args[1], ast.Constant) and m.args[1].value == 'fro'
        if not fro or norm(den).replace(' ', '') not in ('np.sqrt(self.iPu)', 'math.sqrt(self.iPu)', 'self.iPu**0.5'):
            problems.append('the normaliser is `%s / %s`, not ||.||_F / sqrt(iPu)' % (norm(m)[:50], norm(den)))
        prod = norm(m.args[0])
        # array that saves the normaliser per candidate (decide-number-of-streams variant)
        saved = {norm(n.value): norm(n.targets[0].value) for n in ast.walk(fn.node)
                 if isinstance(n, ast.Assign) and isinstance(n.targets[0], ast.Subscript) and isinstance(n.value, ast.Name)}
        rets = [n for n in walk_no_nested(fn.node) if isinstance(n, ast.Return) and isinstance(n.value, ast.Tuple)]
        if len(rets) != 1:
            ctx.error('C09.c: %s no longer returns one tuple' % q)
        prec = norm(rets[0].value.elts[0])
        stores = [n for n in ast.walk(fn.node) if isinstance(n, ast.Assign) and isinstance(n.targets[0], ast.Subscript)
                  and norm(n.targets[0].value) == prec]
        if len(stores) != 1 or not (isinstance(stores[0].value, ast.BinOp) and isinstance(stores[0].value.op, ast.Div)):
            ctx.error('C09.c: %s: the user precoder is not stored once as <product> / <normaliser> (cannot tell)' % q)
        num, dn = stores[0].value.left, stores[0].value.right
        dn_ok = norm(dn) == nname or (isinstance(dn, ast.Subscript) and norm(dn.value) == saved.get(nname))
        if not dn_ok:
            problems.append('the stored precoder is divided by `%s`, not by the normaliser `%s`' % (norm(dn), nname))
        # numerator: the very product whose norm was taken (the reduction matrix may come from its saved copy)
        pm, nm_ = matmul_operands(m.args[0]), matmul_operands(num)
        same_prod = norm(num) == prod
        if not same_prod and pm is not None and nm_ is not None and norm(pm[0]) == norm(nm_[0]):
            r = nm_[1]
            same_prod = isinstance(r, ast.Subscript) and norm(r.value) == saved.get(norm(pm[1]))
        if not same_prod:
            problems.append('the stored precoder `%s` is not the product `%s` whose norm defines the normaliser' % (norm(num)[:50], prod))
        # the equivalent channel handed to the receive filter carries the same normaliser
        red = [n for n in ast.walk(fn.node) if isinstance(n, ast.Assign) and isinstance(n.targets[0], ast.Name)
               and matmul_operands(n.value) is not None and isinstance(matmul_operands(n.value)[1], ast.BinOp)
               and isinstance(matmul_operands(n.value)[1].op, ast.Div)]
        if len(red) != 1:
            ctx.error('C09.c: %s: reduced equivalent channel (A . (P / normaliser)) not found (cannot tell)' % q)
        rb = matmul_operands(red[0].value)[1]
        if norm(rb.right) != nname or (pm is not None and norm(rb.left) != norm(pm[1])):
            problems.append('the equivalent channel is reduced with `%s`, not with %s / %s' % (norm(rb), norm(pm[1]) if pm else '?', nname))
        ctx.obligation('C09.c', q, not problems, {'normaliser': nname, 'product': prod, 'problems': problems})
        if problems:
            ctx.violation('C09.c', q, '; '.join(problems) + ': the user does not get exactly its power, or filter and precoder disagree',
                          fn.path, fn.lineno, operand='exact-power')


def _check_pairing(ctx: Ctx) -> None:
    M = ctx.model
    ctx.rule('C09.d', 'the returned effective channel is channel x the returned precoder', floor=2)
    for q in ('BlockDiagonalizer.block_diagonalize', 'BlockDiagonalizer.block_diagonalize_no_waterfilling'):
        fn = M.func(BD, q)
        ctx.instance('C09.d', q)
        rets = [n for n in walk_no_nested(fn.node) if isinstance(n, ast.Return) and isinstance(n.value, ast.Tuple) and len(n.value.elts) == 2]
        ok = False
        detail = {}
        if len(rets) == 1:
            h, ms = norm(rets[0].value.elts[0]), norm(rets[0].value.elts[1])
            hdef = [n for n in walk_no_nested(fn.node) if isinstance(n, ast.Assign) and norm(n.targets[0]) == h]
            chan = [p for p in fn.params if p != 'self'][0]
            if len(hdef) == 1:
                mm = matmul_operands(hdef[0].value)
                later = [n for n in walk_no_nested(fn.node) if isinstance(n, (ast.Assign, ast.AugAssign)) and n.lineno > hdef[0].lineno
                         and any(norm(t).split('[')[0] == ms for t in (n.targets if isinstance(n, ast.Assign) else [n.target]))]
                ok = mm is not None and norm(mm[0]) == chan and norm(mm[1]) == ms and not later
                detail = {'effective_channel': norm(hdef[0].value), 'precoder_modified_afterwards': bool(later)}
        ctx.obligation('C09.d', q, ok, detail)
        if not ok:
            ctx.violation('C09.d', q, 'the returned effective channel is not np.dot(channel, <returned precoder>) computed after the last '
                          'change of the precoder (%s)' % detail, fn.path, fn.lineno, operand='newH')
    ctx.rule('C09.e', 'precoder, receive filter and stream count of a user come from the same reduction matrix / the same index', floor=2)
    q = 'EnhancedBD._perform_BD_no_waterfilling_decide_number_streams'
    fn = M.func(BD, q)
    ctx.instance('C09.e', q)
    rets = [n for n in walk_no_nested(fn.node) if isinstance(n, ast.Return) and isinstance(n.value, ast.Tuple) and len(n.value.elts) == 3]
    if len(rets) != 1:
        ctx.error('C09.e: %s no longer returns (precoders, filters, stream counts)' % q)
    outs = [norm(e) for e in rets[0].value.elts]
    outer = [l for l in fn.node.body if isinstance(l, ast.For)]
    inner = [l for o in outer for l in ast.walk(o) if isinstance(l, ast.For) and l is not o]
    if len(outer) != 1 or len(inner) != 1:
        ctx.error('C09.e: %s: user loop / candidate loop not recognised' % q)
    cand_var = norm(inner[0].target)
    saved_arrays = {norm(n.targets[0].value): norm(n.value) for n in ast.walk(inner[0]) if isinstance(n, ast.Assign)
                    and isinstance(n.targets[0], ast.Subscript) and norm(n.targets[0].slice) == cand_var}
    finals = {}
    for n in outer[0].body:
        if isinstance(n, ast.Assign) and isinstance(n.targets[0], ast.Subscript) and norm(n.targets[0].value) in outs:
            finals[norm(n.targets[0].value)] = n.value
    if set(finals) != set(outs) or not saved_arrays:
        ctx.error('C09.e: %s: final per-user stores %s / saved candidate arrays %s not recognised' % (q, sorted(finals), sorted(saved_arrays)))
    idxs = set()
    used = set()
    for v in finals.values():
        for x in ast.walk(v):
            if isinstance(x, ast.Subscript) and norm(x.value) in saved_arrays:
                idxs.add(norm(x.slice))
                used.add(norm(x.value))
    problems = []
    if len(idxs) != 1:
        problems.append('the final values are picked with different indexes %s' % sorted(idxs))
    else:
        i = list(idxs)[0]
        bdef = [n for n in outer[0].body if isinstance(n, ast.Assign) and norm(n.targets[0]) == i]
        if len(bdef) != 1 or not (isinstance(bdef[0].value, ast.Call) and norm(bdef[0].value.func) == 'np.argmax'
                                  and norm(bdef[0].value.args[0]) in saved_arrays):
            problems.append('the selection index `%s` is not the argmax of the metric saved per candidate' % i)
    # the stream count is read off the selected reduction matrix (its number of columns)
    ns_v = norm(finals[outs[2]]).replace(' ', '')
    if not any(ns_v == '%s[%s].shape[1]' % (a, list(idxs)[0] if idxs else '?') for a in saved_arrays):
        problems.append('the reported stream count `%s` is not the column count of the selected reduction matrix' % ns_v)
    ctx.obligation('C09.e', q, not problems, {'selection_indexes': sorted(idxs), 'saved_per_candidate': saved_arrays, 'problems': problems})
    if problems:
        ctx.violation('C09.e', q, '; '.join(problems), fn.path, fn.lineno, operand='selection')
    q = 'EnhancedBD._perform_BD_no_waterfilling_fixed_or_naive_reduction'
    fn = M.func(BD, q)
    ctx.instance('C09.e', q)
    rets = [n for n in walk_no_nested(fn.node) if isinstance(n, ast.Return) and isinstance(n.value, ast.Tuple) and len(n.value.elts) == 3]
    if len(rets) != 1:
        ctx.error('C09.e: %s no longer returns (precoders, filters, stream counts)' % q)
    outs = [norm(e) for e in rets[0].value.elts]
    ns = [n for n in ast.walk(fn.node) if isinstance(n, ast.Assign) and isinstance(n.targets[0], ast.Subscript) and norm(n.targets[0].value) == outs[2]]
    wk = [c for c in ast.walk(fn.node) if isinstance(c, ast.Call) and is_self_attr(c.func, 'self') == 'calc_receive_filter_user_k']
    if len(ns) != 1 or len(wk) != 1 or len(wk[0].args) != 2:
        ctx.error('C09.e: %s: stream-count store / receive-filter call not recognised' % q)
    count = norm(ns[0].value)
    pname = norm(wk[0].args[1])
    pk = [norm(n.value).replace(' ', '') for n in ast.walk(fn.node) if isinstance(n, ast.Assign) and norm(n.targets[0]) == pname]
    ok = bool(pk) and all(count in p for p in pk)
    ctx.obligation('C09.e', q, ok, {'stream_count': count, 'reduction_matrix': pname, 'definitions': pk})
    if not ok:
        ctx.violation('C09.e', q, 'the reported stream count `%s` is not the number of columns the reduction matrix %s is built with (%s)'
                      % (count, pname, pk), fn.path, fn.lineno, operand='selection')


def _check_dispatch(ctx: Ctx) -> None:
    M = ctx.model
    ctx.rule('C09.f', 'every accepted metric name is dispatched to a variant that can handle it', floor=4)
    sf = M.func(BD, 'EnhancedBD.set_ext_int_handling_metric')
    df = M.func(BD, 'EnhancedBD.block_diagonalize_no_waterfilling')
    accepted: Dict[str, bool] = {}     # name -> has a metric function
    for n in ast.walk(sf.node):
        if isinstance(n, ast.If):
            names = [c.comparators[0].value for c in ast.walk(n.test) if isinstance(c, ast.Compare) and isinstance(c.comparators[0], ast.Constant)
                     and isinstance(c.comparators[0].value, str) and norm(c.left) == 'metric']
            names += [x.value for c in ast.walk(n.test) if isinstance(c, ast.Compare) and norm(c.left) == 'metric' and isinstance(c.ops[0], ast.In)
                      and isinstance(c.comparators[0], (ast.Tuple, ast.List, ast.Set)) for x in c.comparators[0].elts if isinstance(x, ast.Constant)]
            stores = [s for s in n.body if isinstance(s, ast.Assign) and is_self_attr(s.targets[0], 'self') == '_metric_func']
            nm = [s for s in n.body if isinstance(s, ast.Assign) and is_self_attr(s.targets[0], 'self') == '_metric_func_name']
            if names and stores and nm and isinstance(nm[0].value, ast.Constant):
                has = not (isinstance(stores[0].value, ast.Constant) and stores[0].value.value is None)
                accepted[nm[0].value.value] = has
    explicit: Set[str] = set()
    for n in ast.walk(df.node):
        if isinstance(n, ast.Compare) and len(n.ops) == 1 and is_self_attr(n.left, 'self') in ('_metric_func_name', 'metric_name'):
            c = n.comparators[0]
            if isinstance(c, ast.Constant):
                explicit.add(c.value)
            elif isinstance(n.ops[0], (ast.In, ast.NotIn)) and isinstance(c, (ast.Tuple, ast.List, ast.Set)):
                explicit |= {x.value for x in c.elts if isinstance(x, ast.Constant)}
        # a dispatch dictionary keyed by the metric name: {'naive': f, 'fixed': g}[self.metric_name] / .get(self.metric_name)
        if isinstance(n, ast.Subscript) and isinstance(n.value, ast.Dict) and is_self_attr(n.slice, 'self') in ('_metric_func_name', 'metric_name'):
            explicit |= {k.value for k in n.value.keys if isinstance(k, ast.Constant)}
    if not accepted:
        ctx.error('C09.f: accepted metric names not recognised in set_ext_int_handling_metric')
    for name, has in sorted(accepted.items()):
        construct = 'metric:' + name
        ctx.instance('C09.f', construct)
        ok = (name in explicit) or has      # the fall-through variant needs a metric function
        ctx.obligation('C09.f', construct, ok, {'has_metric_function': has, 'explicitly_dispatched': name in explicit})
        if not ok:
            ctx.violation('C09.f', 'EnhancedBD.block_diagonalize_no_waterfilling', 'metric %r has no metric function and is not dispatched '
                          'explicitly: it falls through to the variant that calls the metric function' % name, df.path, df.lineno,
                          operand='metric:' + name)
    for name in sorted(explicit - set(accepted)):
        ctx.violation('C09.f', 'EnhancedBD.block_diagonalize_no_waterfilling', 'dispatches on metric %r which the setter never installs' % name,
                      df.path, df.lineno, operand='unknown:' + name)


MUTANTS = [
    Mutant('whitening-filter-on-the-wrong-side', BD, 'WhiteningBD._calc_receive_filter_with_whitening',
           [('replace', 'np.dot(BlockDiagonalizer.calc_receive_filter(newH), whitening_filter)', 'np.dot(whitening_filter, BlockDiagonalizer.calc_receive_filter(newH))')],
           r'C09\.j:WhiteningBD\._calc_receive_filter_with_whitening:inverts-unwhitened'),
    Mutant('benign-whitening-filter-matmul', BD, 'WhiteningBD._calc_receive_filter_with_whitening',
           [('replace', 'np.dot(BlockDiagonalizer.calc_receive_filter(newH), whitening_filter)', 'BlockDiagonalizer.calc_receive_filter(newH) @ whitening_filter')],
           None, benign=True),
    Mutant('projected-filter-forgets-projection-on-the-right', BD, 'EnhancedBD.calc_receive_filter_user_k',
           [('replace', 'W = np.dot(np.linalg.pinv(np.dot(overbar_P, Heq_k_P)), overbar_P)', 'W = np.linalg.pinv(np.dot(overbar_P, Heq_k_P))')],
           r'C09\.i:EnhancedBD\.calc_receive_filter_user_k'),
    Mutant('filter-uses-inv', BD, 'BlockDiagonalizer.calc_receive_filter', [('replace', 'np.linalg.pinv(newH)', 'np.linalg.inv(newH)')],
           r'C09\.h:BlockDiagonalizer\.calc_receive_filter'),
    Mutant('benign-filter-matmul', BD, 'EnhancedBD.calc_receive_filter_user_k',
           [('replace', 'W = np.dot(np.linalg.pinv(np.dot(overbar_P, Heq_k_P)), overbar_P)', 'W = np.linalg.pinv(overbar_P @ Heq_k_P) @ overbar_P')],
           None, benign=True),
    Mutant('revert-fix-metric-name-before-validation', BD, 'EnhancedBD.set_ext_int_handling_metric',
           [('regex', r"(    elif metric == 'naive':\n)", r"\1        self._metric_func_name = 'naive'\n")], r'C09\.g:EnhancedBD\.set_ext_int_handling_metric'),
    Mutant('tilde-channel-includes-own-user', BD, 'BlockDiagonalizer._get_tilde_channel',
           [('replace', 'if i != user', 'if i >= 0')], r'C09\.a:BlockDiagonalizer\._get_tilde_channel'),
    Mutant('precoder-without-null-space-basis', BD, 'BlockDiagonalizer._calc_BD_matrix_no_power_scaling',
           [('replace', 'Ms_bad.append(np.dot(tilde_V0, V1))', 'Ms_bad.append(np.dot(V1, V1))')], r'C09\.a:BlockDiagonalizer\._calc_BD_matrix_no_power_scaling'),
    Mutant('sub-channel-rows-off-by-one', BD, 'BlockDiagonalizer._get_sub_channel',
           [('replace', 'range(iNrU * desired_users, (desired_users + 1) * iNrU)', 'range(iNrU * desired_users, (desired_users + 1) * iNrU - 1)')],
           r'C09\.b:BlockDiagonalizer\._get_sub_channel'),
    Mutant('normalise-by-minimum', BD, 'BlockDiagonalizer._perform_normalized_waterfilling_power_scaling',
           [('replace', 'if cur_sqrt_P > max_sqrt_P:', 'if cur_sqrt_P < max_sqrt_P:')], r'C09\.c:.*max-normaliser'),
    Mutant('normalise-skips-first-user', BD, 'BlockDiagonalizer._perform_normalized_waterfilling_power_scaling',
           [('replace', 'for user in range(0, self.num_users):', 'for user in range(1, self.num_users):')], r'C09\.c:.*max-normaliser'),
    Mutant('no-wf-scales-without-sqrt', BD, 'BlockDiagonalizer.block_diagonalize_no_waterfilling',
           [('replace', 'user_matrix * np.sqrt(self.iPu) / cur_sqrt_P', 'user_matrix * self.iPu / cur_sqrt_P')], r'C09\.c:.*own-norm'),
    Mutant('newH-from-unscaled-precoder', BD, 'BlockDiagonalizer.block_diagonalize',
           [('replace', 'newH = np.dot(mtChannel, Ms_good)', 'newH = np.dot(mtChannel, Ms_bad)')], r'C09\.d:BlockDiagonalizer\.block_diagonalize'),
    Mutant('norm-term-of-unreduced-precoder', BD, 'EnhancedBD._perform_BD_no_waterfilling_fixed_or_naive_reduction',
           [('replace', "np.linalg.norm(np.dot(Msk, Pk), 'fro')", "np.linalg.norm(Msk, 'fro')")], r'C09\.c:.*exact-power'),
    Mutant('best-filter-from-last-candidate', BD, 'EnhancedBD._perform_BD_no_waterfilling_decide_number_streams',
           [('replace', 'Wk_all_users[userindex] = Wk_all[best_index]', 'Wk_all_users[userindex] = Wk_all[index]')], r'C09\.e:'),
    Mutant('fixed-metric-not-dispatched', BD, 'EnhancedBD.block_diagonalize_no_waterfilling',
           [('replace', "self._metric_func_name == 'naive' or self._metric_func_name == 'fixed'", "self._metric_func_name == 'naive'")],
           r'C09\.f:.*metric:fixed'),
    Mutant('benign-matmul-operator', BD, 'BlockDiagonalizer.block_diagonalize',
           [('replace', 'newH = np.dot(mtChannel, Ms_good)', 'newH = mtChannel @ Ms_good')], None, benign=True),
    Mutant('benign-range-without-zero', BD, 'BlockDiagonalizer._perform_normalized_waterfilling_power_scaling',
           [('replace', 'for user in range(0, self.num_users):', 'for user in range(self.num_users):')], None, benign=True),
]

ENGINES = ['model', 'terms', 'matterms', 'paths']
TECHNIQUE = ('static analysis: summation-domain, block-arithmetic (terms), normaliser-shape, provider-pairing and dispatch-exhaustiveness rules')
