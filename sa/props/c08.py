"""C08 - multi-user channel matrix views stay coherent across any sequence of updates."""
from __future__ import annotations

import ast

from ..astutil import matmul_operands, stmts_in_order
from ..dsf import Family, Spec, analyse_class
from ..families import MUCHANNEL
from ..model import is_self_attr, norm, walk_no_nested
from ..selftest import Mutant, synthetic_overlay
from ..report import Ctx

PATH = 'pyphysim/channels/multiuser.py'

EXPLANATION = (
    'Decides three structural clauses of C08, not the numeric equality of the views. '
    'C08.a (DSF): for MultiUserChannelMatrix and MultiUserChannelMatrixExtInt, every public method, property '
    'getter/setter and the constructor re-establishes the invariant "no lazily cached or eagerly derived view '
    '(_H_with_pathloss, _big_H_with_pathloss, _big_W, _H_no_pathloss, _pathloss_big_matrix) is stale w.r.t. the '
    'sources it is computed from" - an inductive proof over ALL finite histories of public calls, by abstract '
    'interpretation (lattice NONE<CLEAN<DIRTY) with receiver-sensitive call resolution. '
    'C08.b: each (global matrix, matrix-of-matrices) pair is assigned together from the same value and frozen '
    '(setflags(write=False)). C08.c: raw channel attributes are read only inside the named accessors; '
    'corrupt_concatenated_data multiplies by the big_H property, stores in _last_noise exactly the array it '
    'added, and applies the post filter after the noise. Not decided: numeric block equality, noise statistics.'
    ' General rules also applied here (see DESIGN 10.5): validate-before-commit (no `raise` reachable after the object was already changed in a public mutator); escaping attributes are only rebound, never written in place.')

RAW_ATTRS = {'_H_no_pathloss', '_big_H_no_pathloss', '_H_with_pathloss', '_big_H_with_pathloss'}
RAW_READERS = {'H', 'big_H', 'randomize', 'init_from_channel_matrix', '__init__'}


def check(ctx: Ctx) -> None:
    M = ctx.model
    ctx.assume('E1: no setattr/__dict__ writes by computed name, no monkey-patching; sources are not mutated '
               'through references that escaped the object (the repo freezes them with setflags(write=False), '
               'which rule C08.b checks); exceptional exits are out of scope')
    from ..commit import check_family
    check_family(ctx, 'C08.e', ['MultiUserChannelMatrix'], floor=1)
    from ..idioms import check_escaping_not_mutated
    check_escaping_not_mutated(ctx, 'C08.f', ['MultiUserChannelMatrix', 'MultiUserChannelMatrixExtInt'], floor=4)
    # ---------------------------------------------------------------- C08.a
    ctx.rule('C08.a', 'DSF: no derived view is DIRTY at a normal exit of any public entry point '
                      '(inductive step of the freshness invariant, all histories)', floor=60)
    for cname in MUCHANNEL.classes:
        analyse_class(ctx, 'C08.a', MUCHANNEL, cname)

    # ---------------------------------------------------------------- C08.b
    ctx.rule('C08.b', 'paired representations are assigned together from one value and frozen', floor=3)
    for cname in MUCHANNEL.classes:
        cls = M.cls(cname)
        for fn in cls.methods.values():
            sn = fn.self_name
            if sn is None:
                continue
            stmts = stmts_in_order(fn)
            for i, s in enumerate(stmts):
                if not isinstance(s, (ast.Assign, ast.AnnAssign)):
                    continue
                tgts = s.targets if isinstance(s, ast.Assign) else [s.target]
                for big, small in (('_big_H_no_pathloss', '_H_no_pathloss'),):
                    if not any(is_self_attr(t, sn) == big for t in tgts):
                        continue
                    if fn.name == '__init__':
                        continue
                    construct = '%s.%s' % (cname, fn.name)
                    ctx.instance('C08.b', construct + ':' + big)
                    value_names = {norm(s.value), 'self.' + big}
                    ok_pair = False
                    frozen = set()
                    for s2 in stmts[i + 1:]:
                        if isinstance(s2, ast.Assign) and any(is_self_attr(t, sn) == small for t in s2.targets):
                            v = s2.value
                            if isinstance(v, ast.Call) and norm(v.func).endswith('single_matrix_to_matrix_of_matrices') \
                                    and v.args and norm(v.args[0]) in value_names:
                                ok_pair = True
                        if isinstance(s2, ast.Expr) and isinstance(s2.value, ast.Call):
                            c = s2.value
                            if isinstance(c.func, ast.Attribute) and c.func.attr == 'setflags' and \
                                    any(k.arg == 'write' and isinstance(k.value, ast.Constant) and k.value.value is False
                                        for k in c.keywords):
                                a = is_self_attr(c.func.value, sn)
                                if a:
                                    frozen.add(a)
                    ok = ok_pair and {big, small} <= frozen
                    ctx.obligation('C08.b', construct + ':' + big, ok,
                                   {'paired_from_same_value': ok_pair, 'frozen': sorted(frozen)})
                    if not ok:
                        ctx.violation('C08.b', construct,
                                      '%s is assigned without %s being rebuilt from the same value and both being '
                                      'frozen (paired=%s frozen=%s): the two representations can drift'
                                      % (big, small, ok_pair, sorted(frozen)), fn.path, s.lineno, operand=big)
        # path-loss pair: set_pathloss freezes both arrays it stores
        fn = cls.methods.get('set_pathloss')
        if fn is not None:
            sn = fn.self_name
            construct = '%s.set_pathloss' % cname
            ctx.instance('C08.b', construct + ':pathloss-pair')
            frozen = set()
            for n in walk_no_nested(fn.node):
                if isinstance(n, ast.Call) and isinstance(n.func, ast.Attribute) and n.func.attr == 'setflags':
                    a = is_self_attr(n.func.value, sn)
                    if a and any(k.arg == 'write' and isinstance(k.value, ast.Constant) and k.value.value is False
                                 for k in n.keywords):
                        frozen.add(a)
            ok = {'_pathloss_matrix', '_pathloss_big_matrix'} <= frozen
            ctx.obligation('C08.b', construct + ':pathloss-pair', ok, {'frozen': sorted(frozen)})
            if not ok:
                ctx.violation('C08.b', construct, 'set_pathloss does not freeze both path-loss arrays (frozen=%s)'
                              % sorted(frozen), fn.path, fn.lineno, operand='pathloss-pair')

    # ---------------------------------------------------------------- C08.c accessor discipline
    ctx.rule('C08.c', 'raw channel attributes are read only in the named accessors; corrupt_concatenated_data '
                      'uses the big_H property, stores the noise it added, filters last', floor=8)
    for cname in MUCHANNEL.classes:
        cls = M.cls(cname)
        for d in (cls.methods, cls.getters, cls.setters):
            for fn in d.values():
                sn = fn.self_name
                if sn is None:
                    continue
                for n in ast.walk(fn.node):
                    if isinstance(n, ast.Attribute) and isinstance(n.ctx, ast.Load) and is_self_attr(n, sn) in RAW_ATTRS:
                        construct = '%s.%s' % (cname, fn.name)
                        ctx.instance('C08.c', construct + ':' + n.attr)
                        ok = fn.name in RAW_READERS
                        ctx.obligation('C08.c', construct + ':' + n.attr, ok, {'reader': construct, 'raw': n.attr})
                        if not ok:
                            ctx.violation('C08.c', construct,
                                          'reads raw attribute %s outside the accessors %s: the value ignores the '
                                          'current path loss / may be a stale or unset cache'
                                          % (n.attr, sorted(RAW_READERS)), fn.path, n.lineno, operand=n.attr)
    _check_corrupt(ctx)
    _check_blocks(ctx)
    _check_expansion_counts(ctx)


def _check_blocks(ctx: Ctx) -> None:
    """C08.d: sub-blocks are cut with consecutive entries of the cumulative antenna counts, rows from the receive
    counts and columns from the transmit counts."""
    from ..astutil import cumulative_slices, cumulative_vectors
    M = ctx.model
    ctx.rule('C08.d', 'blocks are cut as [cumNr[i]:cumNr[i+1], cumNt[j]:cumNt[j+1]] with rows from receive and columns from '
                      'transmit antenna counts', floor=6)
    targets = [(PATH, 'MultiUserChannelMatrix._from_small_matrix_to_big_matrix'), (PATH, 'MultiUserChannelMatrix.corrupt_data'),
               (PATH, 'MultiUserChannelMatrixExtInt.calc_cov_matrix_extint_without_noise'),
               ('pyphysim/util/conversion.py', 'single_matrix_to_matrix_of_matrices')]
    for path, q in targets:
        fn = M.func(path, q)
        cums = cumulative_vectors(fn)
        if not cums:
            ctx.error('C08.d: %s no longer builds cumulative antenna counts with hstack([0, cumsum(.)]) (idiom unknown)' % q)
        for sl, cname, idx, ok in cumulative_slices(fn, cums):
            construct = '%s:%s[%s]' % (q, cname, idx)
            ctx.instance('C08.d', construct)
            ctx.obligation('C08.d', construct, ok, {'slice': norm(sl), 'cumulative_of': cums[cname]})
            if not ok:
                ctx.violation('C08.d', q, 'the block bound `%s` does not run from %s[%s] to %s[%s + 1]: the view of one receiver/transmitter '
                              'is cut with the wrong antenna range' % (norm(sl), cname, idx, cname, idx), fn.path, sl.lower.lineno,
                              operand='bounds:' + cname)
        # rows use the receive-derived vector, columns the transmit-derived one
        for n in ast.walk(fn.node):
            if isinstance(n, ast.Subscript) and isinstance(n.slice, ast.Tuple) and len(n.slice.elts) == 2:
                r, c = n.slice.elts
                for pos, e, want in ((0, r, ('nr', 'nrow')), (1, c, ('nt', 'ncol'))):
                    if isinstance(e, ast.Slice) and isinstance(e.lower, ast.Subscript) and isinstance(e.lower.value, ast.Name) \
                            and e.lower.value.id in cums:
                        src = cums[e.lower.value.id].lower()
                        construct = '%s:%s-axis' % (q, 'row' if pos == 0 else 'column')
                        ctx.instance('C08.d', construct)
                        ok = any(w in src for w in want)
                        ctx.obligation('C08.d', construct, ok, {'axis': pos, 'cumulative_of': cums[e.lower.value.id]}, nontrivial=False)
                        if not ok:
                            ctx.violation('C08.d', q, 'the %s range of a block is taken from the cumulative sum of `%s`'
                                          % ('row' if pos == 0 else 'column', cums[e.lower.value.id]), fn.path, n.lineno,
                                          operand='axis:%d' % pos)


def _check_expansion_counts(ctx: Ctx) -> None:
    """C08.g: the per-link path loss is expanded over ALL (receiver, transmitter) blocks of the class that runs the code."""
    from ..astutil import expander
    M = ctx.model
    ctx.rule('C08.g', 'every expansion of the path-loss matrix to antenna resolution is given block counts that cover the whole matrix for '
                      'EVERY class that executes that code (number of receivers x number of transmitters incl. external sources)', floor=3)
    base = M.cls('MultiUserChannelMatrix')
    classes = [base] + M.subclasses(base)

    def k_is_total(C) -> Optional[bool]:
        p = M.lookup_property(C, 'K')
        if p is None or p[0] is None:
            return None
        rets = [n.value for n in walk_no_nested(p[0].node) if isinstance(n, ast.Return) and n.value is not None]
        if len(rets) != 1:
            return None
        return is_self_attr(rets[0], p[0].self_name or 'self') == '_K'

    for D in classes:
        for fn in D.methods.values():
            sn = fn.self_name
            if sn is None:
                continue
            ex = expander(fn)
            for c in walk_no_nested(fn.node):
                if not (isinstance(c, ast.Call) and isinstance(c.func, ast.Attribute) and c.func.attr == '_from_small_matrix_to_big_matrix'):
                    continue
                if len(c.args) < 4:
                    ctx.error('C08.g: expansion call `%s` has fewer than four positional arguments (cannot tell)' % norm(c)[:70])
                small = norm(c.args[0])

                def kind(e, C):
                    e = ex(e)
                    s_ = norm(e).replace(' ', '')
                    for i in (0, 1):
                        if s_ in ('%s.shape[%d]' % (small, i), '%s.shape[%d]' % (norm(ex(c.args[0])), i)):
                            return 'shape%d' % i
                    a = is_self_attr(e, sn)
                    if a == '_K':
                        return 'total'
                    if a == 'K':
                        t = k_is_total(C)
                        return None if t is None else ('total' if t else 'users')
                    return None
                # tuple unpacking of the shape: Kr, Kt = small.shape
                unpack = {}
                for n in walk_no_nested(fn.node):
                    if isinstance(n, ast.Assign) and isinstance(n.targets[0], ast.Tuple) and norm(n.value).endswith('.shape') \
                            and norm(n.value)[:-6] in (small, norm(ex(c.args[0]))):
                        for i, x in enumerate(n.targets[0].elts):
                            if isinstance(x, ast.Name):
                                unpack[x.id] = 'shape%d' % i
                for C in classes:
                    if M.lookup_method(C, fn.name) is not fn:
                        continue
                    construct = '%s@%s' % (fn.qualname, C.name)
                    ctx.instance('C08.g', construct)
                    ks = []
                    for a in c.args[3:5]:
                        ks.append(unpack.get(a.id) if isinstance(a, ast.Name) and a.id in unpack else kind(a, C))
                    if len(ks) == 1:
                        ks.append(ks[0] if ks[0] is None or not ks[0].startswith('shape') else 'shape0')      # Kt defaults to Kr
                    if None in ks:
                        ctx.error('C08.g: block counts `%s` of the expansion in %s are not recognised (cannot tell)'
                                  % ([norm(a) for a in c.args[3:5]], fn.qualname))
                    square = k_is_total(C) is True          # no external sources: users == transmitters
                    ok_r = ks[0] in ('shape0',) or ks[0] == 'users' or (square and ks[0] == 'total')
                    ok_t = ks[1] in ('shape1', 'total') or (square and ks[1] in ('users', 'shape0'))
                    ok = ok_r and ok_t
                    ctx.obligation('C08.g', construct, ok, {'receiver_blocks': ks[0], 'transmitter_blocks': ks[1], 'class_has_external_sources': not square})
                    if not ok:
                        ctx.violation('C08.g', fn.qualname, 'executed by %s the expansion `%s` covers %s x %s blocks, not receivers x all transmitters: the '
                                      'path loss of the external interference links is left at 1 in the big matrix while the per-link view applies it'
                                      % (C.name, norm(c)[:60], ks[0], ks[1]), fn.path, c.lineno, operand='blocks:' + C.name)


def _check_corrupt(ctx: Ctx) -> None:
    M = ctx.model
    fn = M.func(PATH, 'MultiUserChannelMatrix.corrupt_concatenated_data')
    sn = fn.self_name
    construct = 'MultiUserChannelMatrix.corrupt_concatenated_data'
    ctx.instance('C08.c', construct)
    stmts = stmts_in_order(fn)
    rets = [s for s in stmts if isinstance(s, ast.Return) and s.value is not None]
    # every return hands out the received signal: the local itself, or the post filter applied to it
    def local_of(e: ast.AST) -> Optional[str]:
        if isinstance(e, ast.Name):
            return e.id
        names = {n.id for n in ast.walk(e) if isinstance(n, ast.Name) and n.id not in (sn, 'np', 'numpy', 'math')}
        if len(names) == 1 and any(is_self_attr(n, sn) == 'big_W' for n in ast.walk(e)):
            return names.pop()
        return None
    outs = {local_of(r.value) for r in rets}
    if not rets or None in outs or len(outs) != 1:
        ctx.error('C08.c: corrupt_concatenated_data no longer returns one local (idiom unknown)')
    out = outs.pop()
    # (1) first definition of the output: product with the big_H *property*
    defs = [s for s in stmts if isinstance(s, ast.Assign) and any(isinstance(t, ast.Name) and t.id == out for t in s.targets)]
    if not defs:
        ctx.error('C08.c: no definition of the returned local in corrupt_concatenated_data')
    mm = matmul_operands(defs[0].value)
    ok1 = mm is not None and is_self_attr(mm[0], sn) == 'big_H'
    ctx.obligation('C08.c', construct + ':channel', ok1, {'first_def': norm(defs[0].value)})
    if not ok1:
        ctx.violation('C08.c', construct, 'received signal is not formed as (big_H property) x data: `%s`'
                      % norm(defs[0].value), fn.path, defs[0].lineno, operand='channel')
    # (2) what is added to the output is what is stored as last noise
    ok2 = True
    why = ''
    adds = []
    for s in stmts:
        if isinstance(s, ast.AugAssign) and isinstance(s.target, ast.Name) and s.target.id == out \
                and isinstance(s.op, ast.Add):
            adds.append((s, norm(s.value)))
        elif isinstance(s, ast.Assign) and any(isinstance(t, ast.Name) and t.id == out for t in s.targets) \
                and isinstance(s.value, ast.BinOp) and isinstance(s.value.op, ast.Add):
            l, r = norm(s.value.left), norm(s.value.right)
            if l == out or r == out:
                adds.append((s, r if l == out else l))
    stores = [s for s in stmts if isinstance(s, ast.Assign) and any(is_self_attr(t, sn) == '_last_noise' for t in s.targets)]
    nn = [norm(s.value) for s in stores if not (isinstance(s.value, ast.Constant) and s.value.value is None)]
    if len(adds) != 1:
        ok2, why = False, 'expected exactly one noise addition to the output, found %d' % len(adds)
    elif nn != [adds[0][1]]:
        ok2, why = False, 'added `%s` but stored %s in _last_noise' % (adds[0][1], nn)
    else:
        # the stored name must not be re-assigned between the addition and the store
        nm = adds[0][1]
        # the name must denote ONE array from the addition to the store: no rebinding / scaling in between
        # (building it up before the addition, e.g. `noise = randn(..); noise *= sigma`, is fine)
        order = {id(s): i for i, s in enumerate(stmts)}
        i_add = order[id(adds[0][0])]
        i_store = max(order[id(s)] for s in stores if not (isinstance(s.value, ast.Constant) and s.value.value is None))
        lo, hi = min(i_add, i_store), max(i_add, i_store)
        asg = [s for s in stmts if isinstance(s, (ast.Assign, ast.AugAssign)) and lo < order[id(s)] < hi and
               any(isinstance(t, ast.Name) and t.id == nm for t in (s.targets if isinstance(s, ast.Assign) else [s.target]))]
        if asg:
            ok2, why = False, 'noise local `%s` is re-assigned between the addition and the store' % nm
    ctx.obligation('C08.c', construct + ':noise', ok2, {'added': [a[1] for a in adds], 'stored': nn})
    if not ok2:
        ctx.violation('C08.c', construct, 'reported last noise is not the noise added: ' + why, fn.path, fn.lineno,
                      operand='noise')
    # (3) post filter after noise
    filt = [s for s in stmts if isinstance(s, ast.Assign) and any(isinstance(t, ast.Name) and t.id == out for t in s.targets)
            and any(is_self_attr(n, sn) == 'big_W' for n in ast.walk(s.value))]
    filt += [r for r in rets if not isinstance(r.value, ast.Name)]
    ok3 = bool(filt) and bool(adds) and all(f.lineno > adds[0][0].lineno for f in filt)
    ctx.obligation('C08.c', construct + ':filter-last', ok3, {'filter_stmts': [norm(f) for f in filt]})
    if not ok3:
        ctx.violation('C08.c', construct, 'post filter (big_W) is not applied after the noise was added',
                      fn.path, fn.lineno, operand='filter-last')


# ------------------------------------------------------------------------------------------------
_SYN = '''
class Cache:
    def __init__(self):
        self._src = 0
        self._memo = None
    @property
    def view(self):
        if self._memo is None:
            self._memo = self._src * 2
        return self._memo
    def set_src_ok(self, v):
        self._src = v
        self._memo = None
    def set_src_stale(self, v):
        self._src = v
'''


def synthetic():
    ov = synthetic_overlay({'pyphysim/syn.py': _SYN})
    ctx = Ctx('C08', ov)
    fam = Family('syn', ['Cache'], [Spec('_memo', 'lazy', {'_src'}, ['Cache.view'], 'synthetic')])
    ctx.rule('SYN', 'synthetic', 1)
    analyse_class(ctx, 'SYN', fam, 'Cache')
    keys = ctx.keys()
    return [('stale-cache-after-setter', keys == ['SYN:Cache.set_src_stale:_memo'])]


MUTANTS = [
    Mutant('store-K-before-validation', PATH, 'MultiUserChannelMatrix.init_from_channel_matrix',
           [('regex', r'(    del Nt, Nr\n)', r'\1    self._K = K\n')], r'C08\.e:MultiUserChannelMatrix\.init_from_channel_matrix'),
    Mutant('drop-bigH-reset-in-set_pathloss', PATH, 'MultiUserChannelMatrix.set_pathloss',
           [('delete', r'self\._big_H_with_pathloss = None')],
           r'C08\.a:MultiUserChannelMatrix\.set_pathloss:_big_H_with_pathloss'),
    Mutant('drop-both-resets-in-randomize', PATH, 'MultiUserChannelMatrix.randomize',
           [('delete', r'self\._big_H_with_pathloss = None'), ('delete', r'self\._H_with_pathloss = None')],
           r'C08\.a:MultiUserChannelMatrix\.randomize:_(big_)?H_with_pathloss'),
    Mutant('drop-bigW-reset', PATH, 'MultiUserChannelMatrix.set_post_filter',
           [('delete', r'self\._big_W = None')], r'C08\.a:MultiUserChannelMatrix\.set_post_filter:_big_W'),
    Mutant('H_no_pathloss-before-bigH', PATH, 'MultiUserChannelMatrix.init_from_channel_matrix',
           [('regex', r'(\n\s*)self\._big_H_no_pathloss = channel_matrix\n(\s*)(self\._H_no_pathloss = [^\n]*\n)',
             r'\1\3\2self._big_H_no_pathloss = channel_matrix\n')],
           r'C08\.[ab]:MultiUserChannelMatrix\.init_from_channel_matrix'),
    Mutant('raw-read-in-corrupt', PATH, 'MultiUserChannelMatrix.corrupt_concatenated_data',
           [('replace', 'np.dot(self.big_H, data)', 'np.dot(self._big_H_no_pathloss, data)')],
           r'C08\.c:MultiUserChannelMatrix\.corrupt_concatenated_data'),
    Mutant('store-different-noise', PATH, 'MultiUserChannelMatrix.corrupt_concatenated_data',
           [('replace', 'self._last_noise = awgn_noise', 'self._last_noise = awgn_noise * 1.0')],
           r'C08\.c:MultiUserChannelMatrix\.corrupt_concatenated_data:noise'),
    Mutant('no-freeze-after-randomize', PATH, 'MultiUserChannelMatrix.randomize',
           [('delete', r'self\._H_no_pathloss\.setflags')], r'C08\.b:MultiUserChannelMatrix\.randomize'),
    Mutant('revert-fix-9948406-extint-set_pathloss', PATH, 'MultiUserChannelMatrixExtInt.set_pathloss',
           [('delete', r'self\._big_H_with_pathloss = None')],
           r'C08\.a:MultiUserChannelMatrixExtInt\.set_pathloss:_big_H_with_pathloss'),
    Mutant('revert-fix-e6e8d5c-randomize', PATH, 'MultiUserChannelMatrix.randomize',
           [('delete', r'self\._update_pathloss_big_matrix\(\)')],
           r'C08\.a:MultiUserChannelMatrix\.randomize:_pathloss_big_matrix'),
    Mutant('revert-fix-e6e8d5c-init_from', PATH, 'MultiUserChannelMatrix.init_from_channel_matrix',
           [('delete', r'self\._update_pathloss_big_matrix\(\)')],
           r'C08\.a:MultiUserChannelMatrix\.init_from_channel_matrix:_pathloss_big_matrix'),
    Mutant('per-receiver-split-off-by-one', PATH, 'MultiUserChannelMatrix.corrupt_data',
           [('replace', 'cumNr[k]:cumNr[k + 1]', 'cumNr[k]:cumNr[k] + 1')], r'C08\.d:MultiUserChannelMatrix\.corrupt_data'),
    Mutant('big-matrix-columns-from-Nr', PATH, 'MultiUserChannelMatrix._from_small_matrix_to_big_matrix',
           [('replace', 'cumNt = np.hstack([0, np.cumsum(Nt)])', 'cumNt = np.hstack([0, np.cumsum(Nr)])')],
           r'C08\.d:MultiUserChannelMatrix\._from_small_matrix_to_big_matrix'),
    # benign edits
    Mutant('benign-reorder-resets', PATH, 'MultiUserChannelMatrix.set_pathloss',
           [('regex', r'(self\._big_H_with_pathloss = None)\n(\s*)(self\._H_with_pathloss = None)', r'\3\n\2\1')],
           None, benign=True),
    Mutant('benign-rename-noise-local', PATH, 'MultiUserChannelMatrix.corrupt_concatenated_data',
           [('regex', r'awgn_noise', 'nz'), ('regex', r'awgn_noise', 'nz'), ('regex', r'awgn_noise', 'nz')],
           None, benign=True),
    Mutant('benign-extra-if-in-noise_var-setter', PATH, 'MultiUserChannelMatrix.noise_var@setter',
           [('replace', 'self._noise_var = value', 'if True:\n        self._noise_var = value')], None, benign=True),
]

ENGINES = ['model', 'dsf']
TECHNIQUE = ('static analysis: derived-state freshness dataflow (abstract interpretation over public entry points) '
             '+ accessor-discipline and pairing rules on the AST')


def sweep(overlay):
    from ..dsf import dsf_sweep
    return dsf_sweep(overlay, MUCHANNEL, 'C08')
