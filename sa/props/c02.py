"""C02 - OFDM round trip and one-tap equalisation (structural clauses)."""
from __future__ import annotations

import ast
from typing import Dict, List, Optional, Tuple

from .. import terms as T
from ..model import FuncInfo, Model, is_self_attr, norm, walk_no_nested
from ..paths import guards_and_stores
from ..report import Ctx
from ..selftest import Mutant

OF = 'pyphysim/modulators/ofdm.py'
PARAMS = ('fft_size', 'cp_size', 'num_used_subcarriers')

EXPLANATION = (
    'Decides the configuration/sibling-agreement clauses of C02, not the numeric round trip. C02.a: set_parameters '
    'stores its three parameters only after every raising guard (a rejected call keeps the previous valid '
    'configuration) and nothing else in the package writes them. C02.b: a slice whose lower bound is -E (E not a '
    'literal) selects the WHOLE axis when E == 0; it must sit on a branch that excludes E == 0 (zero-length cyclic '
    'prefix). C02.c: placing symbols on subcarriers (modulator), picking them (demodulator) and picking the channel '
    'gains (one-tap equaliser) all index with the same provider get_used_subcarrier_indexes() of the same OFDM '
    'object. C02.d: modulate multiplies and demodulate divides by sqrt of the same power-scale provider; ifft/fft '
    'agree on length and axis; the prefix is the tail slice of the very array that forms the body and the receiver '
    'drops exactly cp_size leading columns of rows of length fft_size + cp_size. A refactor that inlines an '
    'equivalent but different provider on one side would be reported (accepted risk). Not decided: exact recovery '
    'through channels with memory <= CP, zero energy on guard/DC carriers.'
    ' General rules also applied here (see DESIGN 10.5): validate-before-commit (no `raise` reachable after the object was already changed in a public mutator). C02.h: every value TdlChannel.corrupt_data returns is built from the tap delays as well as the tap values (read-set per return path).'
    ' C02.j: with fewer used subcarriers than the FFT size the used FFT bins are exactly [N-h, N) and [1, h+1) (h = used // 2), decided as an identity of symbolic integer ranges; spellings outside that algebra are cannot-tell.')


def neg_zero_slices(fn: FuncInfo):
    """(subscript, E_src, guarded) for slices with a lower bound -E, E non-literal."""
    parent: Dict[int, ast.AST] = {}
    for p in ast.walk(fn.node):
        for c in ast.iter_child_nodes(p):
            parent[id(c)] = p

    def excludes_zero(test: ast.AST, e: str, on_true: bool) -> bool:
        t = norm(test).replace(' ', '')
        e = e.replace(' ', '')
        if on_true:
            return t in (e + '!=0', e + '>0', e, '0!=' + e, '0<' + e, e + '>=1')
        return t in (e + '==0', 'not' + e, '0==' + e, e + '<=0', e + '<1')

    for n in walk_no_nested(fn.node):
        if not isinstance(n, ast.Subscript):
            continue
        if norm(n.value) in ('np.r_', 'np.s_', 'np.c_', 'np.mgrid', 'np.ogrid', 'np.index_exp'):
            continue        # range constructors: `np.r_[-k:0]` is the arithmetic range -k..-1, not an indexing slice
        slices = n.slice.elts if isinstance(n.slice, ast.Tuple) else [n.slice]
        for sl in slices:
            if isinstance(sl, ast.Slice) and isinstance(sl.lower, ast.UnaryOp) and isinstance(sl.lower.op, ast.USub) \
                    and not isinstance(sl.lower.operand, ast.Constant):
                e = norm(sl.lower.operand)
                guarded = False
                cur: ast.AST = n
                while id(cur) in parent:
                    p = parent[id(cur)]
                    if isinstance(p, ast.If):
                        in_body = any(cur is s or any(cur is x for x in ast.walk(s)) for s in p.body)
                        if excludes_zero(p.test, e, in_body):
                            guarded = True
                    if isinstance(p, ast.IfExp):
                        in_body = cur is p.body or any(cur is x for x in ast.walk(p.body))
                        if excludes_zero(p.test, e, in_body):
                            guarded = True
                    cur = p
                # guard by an earlier `if E == 0: return ...` in a dominating block
                if not guarded:
                    from ..astutil import early_exit_tests
                    guarded = any(excludes_zero(t, e, False) for t in early_exit_tests(fn, n))
                yield n, e, guarded


def _fft_call(e: ast.AST, name: str) -> Optional[ast.Call]:
    for n in ast.walk(e):
        if isinstance(n, ast.Call) and norm(n.func) in ('np.fft.' + name, 'numpy.fft.' + name, 'fft.' + name):
            return n
    return None


def _fft_geometry(c: ast.Call) -> Tuple[Optional[str], Optional[str]]:
    n = norm(c.args[1]) if len(c.args) > 1 else None
    ax = norm(c.args[2]) if len(c.args) > 2 else None
    for k in c.keywords:
        if k.arg == 'n':
            n = norm(k.value)
        if k.arg == 'axis':
            ax = norm(k.value)
    return n, ax


def check(ctx: Ctx) -> None:
    M = ctx.model
    cls = M.cls('OFDM')
    # ------------------------------------------------------------------ C02.a
    ctx.rule('C02.a', 'parameters are stored only after all raising guards, and only by set_parameters', floor=4)
    sp = M.func(OF, 'OFDM.set_parameters')
    guards, stores = guards_and_stores(sp, set(sp.params) - {'self'})
    pstores = [s for s in stores if s[1] in PARAMS]
    ctx.instance('C02.a', 'OFDM.set_parameters')
    # path rule (sa/commit.py): no raise is reachable after a parameter was stored - unless the stores are rolled back by an
    # `except BaseException: <restore the snapshot>; raise` around the checks
    from ..commit import commit_then_raise
    late = commit_then_raise(M, sp, cls)
    n_raises = sum(1 for n in walk_no_nested(sp.node) if isinstance(n, ast.Raise) and n.exc is not None)
    ok = n_raises >= 1 and {s[1] for s in pstores} == set(PARAMS) and not late
    ctx.obligation('C02.a', 'OFDM.set_parameters', ok, {'guards': [g[1] for g in guards], 'stores': [s[2] for s in pstores], 'raising_checks': n_raises,
                                                        'raise_after_store': [norm(r[0])[:50] for r in late]})
    if not ok:
        ctx.violation('C02.a', 'OFDM.set_parameters', 'a parameter is stored before the last raising guard (guards %s, stores %s): '
                      'a rejected call leaves a half-updated, invalid configuration'
                      % ([g[1] for g in guards], [s[2] for s in pstores]), sp.path, sp.lineno, operand='validate-before-store')
    # each stored value is the validated parameter of the same name
    for s in pstores:
        construct = 'OFDM.set_parameters:' + s[1]
        ctx.instance('C02.a', construct)
        ok = s[2].replace(' ', '') == 'self.%s=%s' % (s[1], s[1])
        ctx.obligation('C02.a', construct, ok, {'store': s[2]}, nontrivial=False)
        if not ok:
            ctx.violation('C02.a', 'OFDM.set_parameters', 'stores `%s` (not the validated parameter of the same name)' % s[2],
                          sp.path, s[0], operand=s[1])
    for fn in M.all_functions():
        for n in ast.walk(fn.node):
            if isinstance(n, ast.Attribute) and isinstance(n.ctx, ast.Store) and n.attr in PARAMS:
                if fn.cls is cls and fn.name in ('__init__', 'set_parameters'):
                    continue
                recv_is_ofdm = (fn.cls is cls and is_self_attr(n, fn.self_name or 'self')) or 'ofdm' in norm(n.value).lower()
                if recv_is_ofdm:
                    ctx.violation('C02.a', fn.qualname, 'writes OFDM parameter `%s` directly, bypassing the validation of '
                                  'set_parameters' % norm(n), fn.path, n.lineno, operand='writer:' + n.attr)
    # ------------------------------------------------------------------ C02.b
    ctx.rule('C02.b', 'slices with lower bound -E are guarded against E == 0 (presence of the prefix slice is demanded by C02.d)', floor=0)
    mod = M.module(OF)
    for c in mod.classes.values():
        for fn in c.methods.values():
            for sub, e, guarded in neg_zero_slices(fn):
                construct = '%s:[-%s:]' % (fn.qualname, e)
                ctx.instance('C02.b', construct)
                ctx.obligation('C02.b', construct, guarded, {'slice': norm(sub)})
                if not guarded:
                    ctx.violation('C02.b', fn.qualname, 'the slice `%s` takes the WHOLE axis when %s == 0 and is not on a branch '
                                  'that excludes zero: with a zero-length cyclic prefix a full copy of the symbol is prepended'
                                  % (norm(sub), e), fn.path, sub.lineno, operand=e)
    # ------------------------------------------------------------------ C02.c
    ctx.rule('C02.c', 'one subcarrier index map for placing, picking and equalising', floor=3)
    eq_cls = M.cls('OfdmOneTapEqualizer')
    holder = None
    for n in ast.walk(eq_cls.methods['__init__'].node):
        if isinstance(n, ast.Assign) and isinstance(n.value, ast.Name) and is_self_attr(n.targets[0], 'self'):
            holder = n.targets[0].attr
    consumers = [
        ('OFDM._prepare_input_signal', 'store', 'self.get_used_subcarrier_indexes()'),
        ('OFDM._prepare_decoded_signal', 'load', 'self.get_used_subcarrier_indexes()'),
        ('OfdmOneTapEqualizer._equalize_data', 'load', 'self.%s.get_used_subcarrier_indexes()' % holder),
    ]
    for q, kind, provider in consumers:
        fn = M.func(OF, q)
        ctx.instance('C02.c', q)
        loc = {n.targets[0].id: norm(n.value) for n in walk_no_nested(fn.node)
               if isinstance(n, ast.Assign) and isinstance(n.targets[0], ast.Name)}
        idx = []
        for n in walk_no_nested(fn.node):
            if isinstance(n, ast.Subscript) and isinstance(n.slice, ast.Tuple) and len(n.slice.elts) == 2 \
                    and isinstance(n.slice.elts[0], ast.Slice) and not isinstance(n.slice.elts[1], ast.Slice):
                want_ctx = ast.Store if kind == 'store' else ast.Load
                if isinstance(n.ctx, want_ctx):
                    s = norm(n.slice.elts[1])
                    idx.append(loc.get(s, s))
        ok = idx == [provider]
        ctx.obligation('C02.c', q, ok, {'column_index_expressions': idx, 'expected_provider': provider})
        if not ok:
            ctx.violation('C02.c', q, 'subcarrier columns are selected with %s, not with the common provider %s: modulator, '
                          'demodulator and equaliser no longer agree on the subcarrier map' % (idx, provider), fn.path, fn.lineno,
                          operand='index-map')
    # ------------------------------------------------------------------ C02.d
    ctx.rule('C02.d', 'symmetric power scale, matching ifft/fft geometry, CP add/remove agree', floor=4)
    mo = M.func(OF, 'OFDM.modulate')
    de = M.func(OF, 'OFDM.demodulate')
    # helpers wrapped around the provider are looked through; the provider itself stays uninterpreted
    lm, ld = T.local_terms(M, mo, opaque={'_calculate_power_scale'}), T.local_terms(M, de, opaque={'_calculate_power_scale'})

    def coeff(loc, name):
        for v in loc.values():
            c = T.coefficient_of(v, lambda a: a[0] == 'call' and a[1].endswith('fft.' + name))
            if c.terms:
                return c
        return None
    cm, cd = coeff(lm, 'ifft'), coeff(ld, 'fft')
    ctx.instance('C02.d', 'power-scale')
    ok = cm is not None and cd is not None and (cm * cd) == T.Term.const(1) and \
        any(a[0] == 'call' and a[1] == 'self._calculate_power_scale' for a in T.atoms_of(cm))
    ctx.obligation('C02.d', 'power-scale', ok, {'modulate_factor': cm.pretty() if cm else None, 'demodulate_factor': cd.pretty() if cd else None})
    if not ok:
        ctx.violation('C02.d', 'OFDM.modulate/demodulate', 'the factor applied to the IFFT (%s) is not the inverse of the factor '
                      'applied to the FFT (%s) over the same _calculate_power_scale provider'
                      % (cm.pretty() if cm else None, cd.pretty() if cd else None), mo.path, mo.lineno, operand='power-scale')
    ci, cf = _fft_call(mo.node, 'ifft'), _fft_call(de.node, 'fft')
    ctx.instance('C02.d', 'fft-geometry')
    ok = ci is not None and cf is not None and _fft_geometry(ci) == _fft_geometry(cf) == ('self.fft_size', '1')
    ctx.obligation('C02.d', 'fft-geometry', ok, {'ifft': _fft_geometry(ci) if ci else None, 'fft': _fft_geometry(cf) if cf else None})
    if not ok:
        ctx.violation('C02.d', 'OFDM.modulate/demodulate', 'ifft %s and fft %s disagree on (length, axis) = (self.fft_size, 1)'
                      % (_fft_geometry(ci) if ci else None, _fft_geometry(cf) if cf else None), mo.path, mo.lineno, operand='fft-geometry')
    add = M.func(OF, 'OFDM._add_CP')
    ctx.instance('C02.d', 'OFDM._add_CP')
    from ..astutil import expander
    p = [x for x in add.params if x != 'self'][0]
    ex = expander(add)
    hs = [n for n in walk_no_nested(add.node) if isinstance(n, ast.Call) and norm(n.func) in ('np.hstack', 'np.concatenate', 'np.append')]
    ok = False
    parts = None
    if len(hs) == 1:
        h = hs[0]
        parts = h.args[0].elts if h.args and isinstance(h.args[0], (ast.List, ast.Tuple)) else (h.args[:2] if norm(h.func) == 'np.append' else None)
    elif not hs:
        # pre-allocated form: out[:, :cp] = prefix ; out[:, cp:] = body
        sts = [n for n in walk_no_nested(add.node) if isinstance(n, ast.Assign) and isinstance(n.targets[0], ast.Subscript)
               and isinstance(n.targets[0].value, ast.Name)]
        # the two column ranges [:, :B] and [:, B:] with one boundary expression B (cp_size, or the width of the prefix: a wrong B
        # cannot go unnoticed, the slice store would not broadcast)
        def col_bound(n, upper: bool):
            sl = n.targets[0].slice
            if isinstance(sl, ast.Tuple) and len(sl.elts) == 2 and isinstance(sl.elts[0], ast.Slice) and isinstance(sl.elts[1], ast.Slice) \
                    and sl.elts[0].lower is None and sl.elts[0].upper is None and sl.elts[1].step is None:
                c = sl.elts[1]
                if upper and c.lower is None and c.upper is not None:
                    return norm(c.upper)
                if not upper and c.upper is None and c.lower is not None:
                    return norm(c.lower)
            return None
        head = [n for n in sts if col_bound(n, True) is not None]
        tail = [n for n in sts if col_bound(n, False) is not None]
        if len(head) == 1 and len(tail) == 1 and norm(head[0].targets[0].value) == norm(tail[0].targets[0].value) \
                and col_bound(head[0], True) == col_bound(tail[0], False):
            parts = [head[0].value, tail[0].value]
            hs = [head[0]]
    if parts is None or len(parts) != 2:
        ctx.error('C02.d: _add_CP joins prefix and body neither with one hstack/concatenate of two parts nor by filling the two column '
                  'ranges of a pre-allocated array (cannot tell)')
    pre, body = (ex(x) for x in parts)
    ok = norm(body) == p and norm(pre).replace(' ', '') == '%s[:,-self.cp_size:]' % p
    ctx.obligation('C02.d', 'OFDM._add_CP', ok, {'hstack': norm(hs[0])[:90] if hs else None})
    if not ok:
        ctx.violation('C02.d', 'OFDM._add_CP', 'the prefix is not the last cp_size columns of the very array that forms the body',
                      add.path, add.lineno, operand='prefix')
    rem = M.func(OF, 'OFDM._remove_CP')
    ctx.instance('C02.d', 'OFDM._remove_CP')
    p = [x for x in rem.params if x != 'self'][0]
    ex = expander(rem)
    widths, drops = [], []
    for n in walk_no_nested(rem.node):
        if isinstance(n, ast.Assign) and norm(n.targets[0]) == p + '.shape' and isinstance(n.value, ast.Tuple) and len(n.value.elts) == 2:
            widths.append(norm(ex(n.value.elts[1])).replace(' ', ''))
        if isinstance(n, ast.Call) and isinstance(n.func, ast.Attribute) and n.func.attr == 'reshape':
            a = n.args[1:] if norm(n.func.value) in ('np', 'numpy') else n.args
            a = a[0].elts if len(a) == 1 and isinstance(a[0], ast.Tuple) else a
            if len(a) == 2:
                widths.append(norm(ex(a[1])).replace(' ', ''))
        if isinstance(n, ast.Return) and n.value is not None:
            drops.append(norm(ex(n.value)).replace(' ', ''))
    if len(widths) != 1 or len(drops) != 1:
        ctx.error('C02.d: _remove_CP does not reshape once and return once (cannot tell): widths %s returns %s' % (widths, drops))
    ok = widths[0] in ('self.fft_size+self.cp_size', 'self.cp_size+self.fft_size') and drops[0] == '%s[:,self.cp_size:]' % p
    ctx.obligation('C02.d', 'OFDM._remove_CP', ok, {'row_width': widths[0], 'returned': drops[0]})
    if not ok:
        ctx.violation('C02.d', 'OFDM._remove_CP', 'does not drop exactly the leading cp_size columns of rows of length '
                      'fft_size + cp_size', rem.path, rem.lineno, operand='remove')

    # ------------------------------------------------------------------ C02.f
    ctx.rule('C02.f', 'the equaliser takes the channel gains from the reported response\'s own frequency-response provider', floor=1)
    eq = M.func(OF, 'OfdmOneTapEqualizer.equalize_data')
    ctx.instance('C02.f', 'OfdmOneTapEqualizer.equalize_data')
    ir = [x for x in eq.params if x not in ('self', 'data')][0]
    prov = [n for n in walk_no_nested(eq.node) if isinstance(n, ast.Call) and norm(n.func) == ir + '.get_freq_response']
    own_fft = [n for n in walk_no_nested(eq.node) if isinstance(n, ast.Call) and norm(n.func).endswith('fft.fft')]
    sparse = [n for n in walk_no_nested(eq.node) if isinstance(n, ast.Attribute) and n.attr in ('tap_values_sparse', '_tap_values_sparse')]
    loc = {n.targets[0].id: norm(n.value) for n in walk_no_nested(eq.node) if isinstance(n, ast.Assign) and isinstance(n.targets[0], ast.Name)}
    if prov and not own_fft:
        arg = norm(prov[0].args[0]) if prov[0].args else ''
        ok = loc.get(arg, arg) in ('self._ofdm_obj.fft_size', 'fft_size') and loc.get('fft_size', 'self._ofdm_obj.fft_size') == 'self._ofdm_obj.fft_size'
        ctx.obligation('C02.f', 'OfdmOneTapEqualizer.equalize_data', ok, {'provider_call': norm(prov[0])})
        if not ok:
            ctx.violation('C02.f', 'OfdmOneTapEqualizer.equalize_data', 'the frequency response is requested for `%s`, not for the FFT size '
                          'of the OFDM object' % arg, eq.path, eq.lineno, operand='fft-size')
    elif sparse:
        ctx.obligation('C02.f', 'OfdmOneTapEqualizer.equalize_data', False, {'reads': [norm(n) for n in sparse]})
        ctx.violation('C02.f', 'OfdmOneTapEqualizer.equalize_data', 'the channel gains are computed from the SPARSE tap values (`%s`), '
                      'which carry no delays: for any tap layout whose delays are not 0,1,...,L-1 the one-tap equaliser divides by the '
                      'wrong frequency response' % norm(sparse[0]), eq.path, sparse[0].lineno, operand='sparse-taps')
    else:
        ctx.error('C02.f: equalize_data obtains the frequency response neither from %s.get_freq_response() nor from a recognisably wrong '
                  'source (cannot tell)' % ir)
    # ------------------------------------------------------------------ C02.e
    from ..dsf import auto_memo_check
    ctx.rule('C02.e', 'no auto-discovered lazily filled cache of the classes in the anchored modules can be stale at the exit of a public method (dependencies = what the fill expression reads, incl. mutating calls on held sub-objects)', floor=2)
    auto_memo_check(ctx, 'C02.e', [OF])
    from ..commit import check_family
    check_family(ctx, 'C02.g', ['OFDM', 'OfdmOneTapEqualizer'], floor=1)
    from .c03 import check_delays_applied
    check_delays_applied(ctx, 'C02.h')
    from ..idioms import check_no_persistent_buffers
    check_no_persistent_buffers(ctx, 'C02.i', [OF], floor=10)
    _check_used_index_set(ctx)
    # ------------------------------------------------------------------ C02.k
    from ..idioms import check_range_guard
    ctx.rule('C02.k', 'the validity guard of set_parameters rejects a cyclic prefix exactly when it is negative or LONGER than the FFT size '
                      '(cp_size == fft_size and cp_size == 0 are valid configurations): decided for every order position of cp_size', floor=1)
    sp = M.func(OF, 'OFDM.set_parameters')
    ps_ = [p_ for p_ in sp.params if p_ != 'self']
    if len(ps_) < 2:
        ctx.error('C02.k: OFDM.set_parameters no longer takes (fft_size, cp_size, ...) (cannot tell)')
    check_range_guard(ctx, 'C02.k', sp, ps_[1], ['0', ps_[0]],
                      {'below 0': True, 'at 0': False, 'between 0 and %s' % ps_[0]: False, 'at %s' % ps_[0]: False, 'above %s' % ps_[0]: True},
                      'raise', 'every cp size from 0 to the FFT size inclusive is a valid configuration, and only those')


def thorough(ctx: Ctx) -> None:
    """Advisory, package-wide: other -E slice bounds (not verdict relevant: outside every property's quantifier)."""
    adv = []
    for fn in ctx.model.all_functions():
        if fn.path == OF:
            continue
        for sub, e, guarded in neg_zero_slices(fn):
            if not guarded:
                adv.append('%s:%d %s' % (fn.path, sub.lineno, norm(sub)))
    ctx.stats['advisory_unguarded_negative_lower_bounds_elsewhere'] = adv[:20]


class _Ranges:
    """a concatenation of half-open integer ranges [lo, hi) with symbolic (term) bounds"""
    def __init__(self, parts):
        self.parts = list(parts)


def _range_eval(M: Model, fn: FuncInfo, skip_tests, depth: int = 0):
    """Value (a _Ranges) returned by `fn` on the path where every test in `skip_tests` (normalised text) is false.  Understands
    np.r_[a:b], np.arange, hstack / concatenate / np.r_[x, y], scalar + ranges, and slices that cut a concatenation exactly at a part
    boundary.  Anything else raises T.Unknown (cannot tell)."""
    if depth > 3:
        raise T.Unknown('call depth')
    env: Dict[str, object] = {}
    tenv = T.Env(M, fn)
    tenv.floordiv = True

    def scalar(e) -> T.Term:
        if isinstance(e, ast.Name) and e.id in env:
            v = env[e.id]
            if isinstance(v, T.Term):
                return v
            raise T.Unknown('%s is not a scalar' % e.id)
        if any(isinstance(n_, ast.Name) and isinstance(env.get(n_.id), _Ranges) for n_ in ast.walk(e)):
            raise T.Unknown('`%s` is not a scalar' % norm(e)[:40])
        sub = {n_.id: env[n_.id] for n_ in ast.walk(e) if isinstance(n_, ast.Name) and isinstance(env.get(n_.id), T.Term)}
        t = T.from_ast(e, tenv)
        return T.substitute(t, sub) if sub else t

    def length(p) -> T.Term:
        return p[1] - p[0]

    def ev(e):
        if isinstance(e, ast.Name):
            if e.id in env:
                return env[e.id]
            raise T.Unknown('name %s' % e.id)
        if isinstance(e, ast.Call):
            f = norm(e.func)
            if f in ('np.arange', 'numpy.arange', 'range') and 1 <= len(e.args) <= 2 and not e.keywords:
                lo = T.Term.const(0) if len(e.args) == 1 else scalar(e.args[0])
                return _Ranges([(lo, scalar(e.args[-1]))])
            if f in ('np.hstack', 'np.concatenate', 'numpy.hstack', 'numpy.concatenate') and len(e.args) == 1 \
                    and isinstance(e.args[0], (ast.List, ast.Tuple)):
                out = []
                for x in e.args[0].elts:
                    v = ev(x)
                    if not isinstance(v, _Ranges):
                        raise T.Unknown('concatenated piece `%s` is not a range' % norm(x)[:40])
                    out += v.parts
                return _Ranges(out)
            if isinstance(e.func, ast.Attribute) and isinstance(e.func.value, ast.Name) and e.func.value.id == (fn.self_name or 'self') \
                    and not e.args and not e.keywords:
                callee = M.lookup_method(M.cls(fn.qualname.split('.')[0]), e.func.attr)
                if callee is None:
                    raise T.Unknown('method %s' % e.func.attr)
                return _range_eval(M, callee, skip_tests, depth + 1)
            raise T.Unknown('call %s' % f)
        if isinstance(e, ast.Subscript):
            if norm(e.value) in ('np.r_', 'numpy.r_'):
                items = e.slice.elts if isinstance(e.slice, ast.Tuple) else [e.slice]
                out = []
                for it in items:
                    if isinstance(it, ast.Slice):
                        if it.step is not None or it.upper is None:
                            raise T.Unknown('r_ slice form')
                        out.append((scalar(it.lower) if it.lower is not None else T.Term.const(0), scalar(it.upper)))
                    else:
                        v = ev(it)
                        if not isinstance(v, _Ranges):
                            raise T.Unknown('r_ item')
                        out += v.parts
                return _Ranges(out)
            base = ev(e.value)
            if isinstance(base, _Ranges) and isinstance(e.slice, ast.Slice) and e.slice.step is None:
                lo = scalar(e.slice.lower) if e.slice.lower is not None else T.Term.const(0)
                hi = scalar(e.slice.upper) if e.slice.upper is not None else None
                cum, cuts = T.Term.const(0), [T.Term.const(0)]
                for p_ in base.parts:
                    cum = cum + length(p_)
                    cuts.append(cum)
                try:
                    i0 = [i for i, c in enumerate(cuts) if c == lo][0]
                    i1 = len(base.parts) if hi is None else [i for i, c in enumerate(cuts) if c == hi][0]
                except IndexError:
                    raise T.Unknown('slice `%s` does not cut the concatenation at a part boundary' % norm(e)[:50])
                return _Ranges(base.parts[i0:i1])
            raise T.Unknown('subscript `%s`' % norm(e)[:40])
        if isinstance(e, ast.BinOp) and isinstance(e.op, (ast.Add, ast.Sub)):
            l_, r_ = ev(e.left), ev(e.right)
            if isinstance(l_, T.Term) and isinstance(r_, T.Term):
                return l_ + r_ if isinstance(e.op, ast.Add) else l_ - r_
            if isinstance(l_, _Ranges) and isinstance(r_, T.Term):
                k = r_ if isinstance(e.op, ast.Add) else -r_
                return _Ranges([(a + k, b + k) for a, b in l_.parts])
            if isinstance(r_, _Ranges) and isinstance(l_, T.Term) and isinstance(e.op, ast.Add):
                return _Ranges([(a + l_, b + l_) for a, b in r_.parts])
            raise T.Unknown('arithmetic `%s`' % norm(e)[:40])
        return scalar(e)

    for st in fn.node.body:
        if isinstance(st, ast.Expr) and isinstance(st.value, ast.Constant):
            continue
        if isinstance(st, ast.If) and norm(st.test) in skip_tests and not st.orelse:
            continue
        if isinstance(st, ast.Assign) and len(st.targets) == 1 and isinstance(st.targets[0], ast.Name):
            env[st.targets[0].id] = ev(st.value)
            continue
        if isinstance(st, ast.Return) and st.value is not None:
            v = ev(st.value)
            if not isinstance(v, _Ranges):
                raise T.Unknown('returns a scalar')
            return v
        raise T.Unknown('statement `%s`' % norm(st)[:50])
    raise T.Unknown('no return')


def _check_used_index_set(ctx: Ctx) -> None:
    M = ctx.model
    ctx.rule('C02.j', 'with fewer used subcarriers than the FFT size the used FFT bins are exactly {1..h} and {N-h..N-1} (h = used // 2) as an '
                      'identity of symbolic integer ranges: bin 0 (DC) and the middle (guard) bins are never loaded', floor=1)
    fn = M.func(OF, 'OFDM.get_used_subcarrier_indexes')
    ctx.instance('C02.j', fn.qualname)
    allused = {'self.num_used_subcarriers == self.fft_size', 'self.fft_size == self.num_used_subcarriers',
               'self._num_used_subcarriers == self.fft_size', 'self.num_used_subcarriers == self._fft_size'}
    try:
        got = _range_eval(M, fn, allused)
    except T.Unknown as e:
        ctx.error('C02.j: the used-bin set of %s is not a recognised concatenation of integer ranges (%s): cannot tell' % (fn.qualname, e))
    alias = {'self._fft_size': T.Term.sym('self.fft_size'), 'self._num_used_subcarriers': T.Term.sym('self.num_used_subcarriers')}
    parts = {(T.substitute(a, alias), T.substitute(b, alias)) for a, b in got.parts}
    senv = T.Env(None, None)
    senv.floordiv = True
    h = T.parse_spec('self.num_used_subcarriers // 2', senv)
    N = T.Term.sym('self.fft_size')
    want = {(N - h, N), (T.Term.const(1), h + T.Term.const(1))}
    ok = parts == want and len(got.parts) == 2
    pretty = ['[%s, %s)' % (a.pretty(), b.pretty()) for a, b in got.parts]
    ctx.obligation('C02.j', fn.qualname, ok, {'ranges': pretty, 'specification': ['[N - h, N)', '[1, h + 1)']})
    if not ok:
        ctx.violation('C02.j', fn.qualname, 'the used FFT bins are %s, not [N - h, N) and [1, h + 1): DC or guard subcarriers get loaded (or '
                      'used ones dropped)' % pretty, fn.path, fn.lineno, operand='bin-set')


def synthetic():
    from ..overlay import Overlay
    src = 'def f(x, n):\n    return x[:, -n:]\ndef g(x, n):\n    if n != 0:\n        return x[:, -n:]\n    return x\n'
    m = Model(Overlay({'pyphysim/syn.py': src}, '<syn>'))
    f = list(neg_zero_slices(m.func('pyphysim/syn.py', 'f')))
    g = list(neg_zero_slices(m.func('pyphysim/syn.py', 'g')))
    return [('unguarded-negative-zero-slice', len(f) == 1 and not f[0][2]), ('guarded-slice-accepted', len(g) == 1 and g[0][2])]


MUTANTS = [
    Mutant('positive-half-starts-at-dc', OF, 'OFDM._get_used_subcarrier_numbers',
           [('replace', 'np.r_[1:half_used_sc + 1]', 'np.r_[0:half_used_sc]')], r'C02\.j:OFDM\.get_used_subcarrier_indexes:bin-set'),
    Mutant('negative-half-one-bin-short', OF, 'OFDM.get_used_subcarrier_indexes',
           [('replace', 'self.fft_size + numbers[half_used:]', 'self.fft_size - 1 + numbers[half_used:]')], r'C02\.j:OFDM\.get_used_subcarrier_indexes:bin-set'),
    Mutant('benign-halves-built-with-arange', OF, 'OFDM._get_used_subcarrier_numbers',
           [('replace', 'np.r_[1:half_used_sc + 1]', 'np.arange(1, half_used_sc + 1)'), ('replace', 'np.r_[-half_used_sc:0]', 'np.arange(-half_used_sc, 0)')],
           None, benign=True),
    Mutant('store-cp-before-guards', OF, 'OFDM.set_parameters',
           [('regex', r'(    if cp_size < 0 or cp_size > fft_size:)', r'    self.cp_size = cp_size\n\1')], r'C02\.a:OFDM\.set_parameters'),
    Mutant('remove-cp-zero-guard', OF, 'OFDM._add_CP',
           [('regex', r'    if self\.cp_size != 0:\n        output = (np\.hstack\(\[input_data\[:, -self\.cp_size:\], input_data\]\))\n    else:\n        output = input_data',
             r'    output = \1')], r'C02\.b:OFDM\._add_CP'),
    Mutant('equaliser-uses-other-index', OF, 'OfdmOneTapEqualizer._equalize_data',
           [('replace', 'self._ofdm_obj.get_used_subcarrier_indexes()', 'self._ofdm_obj._get_used_subcarrier_numbers()')],
           r'C02\.c:OfdmOneTapEqualizer\._equalize_data'),
    Mutant('demodulate-multiplies', OF, 'OFDM.demodulate',
           [('replace', '/ math.sqrt(self._calculate_power_scale())', '* math.sqrt(self._calculate_power_scale())')], r'C02\.d:.*power-scale'),
    Mutant('fft-other-axis', OF, 'OFDM.demodulate', [('replace', 'self.fft_size, 1)', 'self.fft_size, 0)')], r'C02\.d:.*fft-geometry'),
    Mutant('prefix-from-head', OF, 'OFDM._add_CP', [('replace', 'input_data[:, -self.cp_size:]', 'input_data[:, :self.cp_size]')],
           r'C02\.d:OFDM\._add_CP'),
    Mutant('equaliser-fft-of-sparse-taps', OF, 'OfdmOneTapEqualizer.equalize_data',
           [('replace', 'freq_response = impulse_response.get_freq_response(fft_size)',
             'freq_response = np.fft.fft(impulse_response.tap_values_sparse, fft_size, axis=0)')], r'C02\.f:OfdmOneTapEqualizer\.equalize_data'),
    Mutant('benign-cp-greater-zero', OF, 'OFDM._add_CP', [('replace', 'if self.cp_size != 0:', 'if self.cp_size > 0:')], None, benign=True),
    Mutant('benign-np-sqrt', OF, 'OFDM.modulate', [('replace', 'math.sqrt(self._calculate_power_scale())', 'np.sqrt(self._calculate_power_scale())')],
           None, benign=True),
]

ENGINES = ['model', 'paths', 'terms']
TECHNIQUE = 'static analysis: validate-before-store, negative-zero slice idiom, provider agreement between sibling functions, term factors'


def sweep(overlay):
    from ..selftest import simple_statement, sweep_lines
    out = []
    for q in ('OFDM.set_parameters', 'OFDM._add_CP', 'OFDM._remove_CP', 'OFDM.modulate', 'OFDM.demodulate'):
        out += sweep_lines(overlay, OF, q, lambda t: simple_statement(t) or t.startswith('raise '), 'C02')
    return out
