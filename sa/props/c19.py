"""C19 - cell geometry: containment agrees with the outline, sub-objects follow the cell, guarded user placement."""
from __future__ import annotations

import ast
from typing import Dict, List, Optional, Set

from ..dsf import DSF, analyse_class
from ..families import CELL3SEC, Family
from ..model import ClassInfo, FuncInfo, Model, is_self_attr, norm, walk_no_nested
from ..paths import ExcHierarchy, FlagInterp
from ..report import Ctx
from ..selftest import Mutant

SH = 'pyphysim/cell/shapes.py'
CE = 'pyphysim/cell/cell.py'

EXPLANATION = (
    'Decides three structural clauses of C19, not the geometry. C19.a (observer dependency): for every shape/cell '
    'class the containment test transitively reads every piece of publicly settable placement state (_pos, '
    '_rotation, _radius) that the outline (`vertices`) of that class reads - a containment test that ignores the '
    'rotation or the position cannot agree with the rotated/translated polygon (reasoned exemption: rotation of a '
    'disc). C19.b (DSF): the three sector hexagons of a Cell3Sec follow the cell after any sequence of pos/radius/'
    'rotation changes (users placed in a sector then lie in the cell). C19.c: users enter a cell only through '
    'appends that are dominated by the containment test (CellBase.add_user), through get_border_point, or through a '
    'sector whose own add_user is guarded; the rejection loop of add_random_user keeps both the containment and '
    'the minimum-distance disjunct. Not decided: border-point geometry, cluster layout distances, point processes. '
    'Dropped from DESIGN: "Rectangle corners follow pos" - after the containment fix the test agrees with the '
    'vertices for every pos, so demanding it would exceed what C19 states.'
    ' General rules also applied here (see DESIGN 10.5): validate-before-commit (no `raise` reachable after the object was already changed in a public mutator); falsy-zero (Optional numeric parameters tested with `is None`, never by truthiness). C19.f also covers plain float parameters; C19.i: positions are combined affinely (no point + point).'
    ' C19.n: a signed coordinate offset (a local difference) that is added as a displacement is never also used through abs() as a factor of the same result (contradictory sign beliefs; scanner over every function of shapes.py / cell.py).')

PLACEMENT = {'_pos', '_rotation', '_radius'}
EXEMPT = {('Circle', '_rotation'): 'a disc is invariant under rotation about its centre'}


def _closure_reads(M: Model, cls: ClassInfo, fn: FuncInfo) -> Set[str]:
    d = DSF(M, cls, Family('none', [cls.name], []))
    return d.fn_reads(fn)


ABS, REL = 'absolute', 'relative'


def affine_sums(fn: FuncInfo):
    """(BinOp node, left kind, right kind) for every `+` whose two operands are both ABSOLUTE positions.

    Positions form an affine space: `<obj>.pos` (and arrays / elements built from it) is a point in the plane, a difference
    of two points or a layout offset is a vector.  point + vector is a point, point - point is a vector, but point + point
    counts the origin twice (harmless only when the origin is 0).  Kinds are inferred from single-assignment locals
    (nested helper functions see the locals of their parent); anything else has no kind and produces no verdict."""
    env = {}
    nodes = [fn.node]

    def kind(e, depth=0):
        if depth > 12 or e is None:
            return None
        if isinstance(e, ast.Attribute) and e.attr in ('pos', '_pos'):
            return ABS
        if isinstance(e, ast.Name):
            return env.get(e.id)
        if isinstance(e, ast.Subscript):
            return kind(e.value, depth + 1)
        if isinstance(e, (ast.ListComp, ast.GeneratorExp)):
            return kind(e.elt, depth + 1)
        if isinstance(e, (ast.List, ast.Tuple)) and e.elts:
            ks = {kind(x, depth + 1) for x in e.elts}
            return ks.pop() if len(ks) == 1 else None
        if isinstance(e, ast.Call):
            f = norm(e.func)
            if f in ('np.array', 'np.asarray', 'cast', 'complex', 'np.atleast_1d', 'np.squeeze', 'np.ravel') and e.args:
                return kind(e.args[-1] if f == 'cast' else e.args[0], depth + 1)
            if f.split('.')[-1] == '_calc_cell_positions':
                return REL
            return None
        if isinstance(e, ast.BinOp) and isinstance(e.op, (ast.Add, ast.Sub)):
            l, r = kind(e.left, depth + 1), kind(e.right, depth + 1)
            if isinstance(e.op, ast.Sub):
                if l == ABS and r == ABS:
                    return REL
                if l == ABS and r == REL:
                    return ABS
                if l == REL and r == REL:
                    return REL
                return None
            if {l, r} == {ABS, REL}:
                return ABS
            if l == REL and r == REL:
                return REL
            return None
        if isinstance(e, ast.BinOp) and isinstance(e.op, (ast.Mult, ast.Div)):
            l, r = kind(e.left, depth + 1), kind(e.right, depth + 1)
            if REL in (l, r) and ABS not in (l, r):
                return REL
            return None
        return None

    counts = {}
    for n in ast.walk(fn.node):
        if isinstance(n, ast.Name) and isinstance(n.ctx, ast.Store):
            counts[n.id] = counts.get(n.id, 0) + 1
    for _ in range(3):
        for n in ast.walk(fn.node):
            if isinstance(n, ast.Assign) and len(n.targets) == 1 and isinstance(n.targets[0], ast.Name) and counts.get(n.targets[0].id) == 1:
                k = kind(n.value)
                if k:
                    env[n.targets[0].id] = k
            elif isinstance(n, (ast.For, ast.comprehension)) and isinstance(n.target, ast.Name) and counts.get(n.target.id, 1) == 1:
                k = kind(n.iter)
                if k:
                    env[n.target.id] = k
    for n in ast.walk(fn.node):
        if isinstance(n, ast.BinOp) and isinstance(n.op, ast.Add):
            l, r = kind(n.left), kind(n.right)
            if l == ABS and r == ABS:
                yield n, l, r


def _check_affine(ctx: Ctx) -> None:
    M = ctx.model
    ctx.rule('C19.i', 'positions are combined affinely: no expression adds two ABSOLUTE positions (`<x>.pos` + `<y>.pos` counts the origin - the '
                      'cluster / cell centre - twice); offsets from the layout generator are vectors and may be added to one point', floor=20)
    for path in (SH, CE):
        mod = M.module(path)
        for c in mod.classes.values():
            for f in list(c.methods.values()) + list(c.getters.values()) + list(c.setters.values()):
                if not any(isinstance(x, ast.Attribute) and x.attr in ('pos', '_pos') for x in ast.walk(f.node)):
                    continue
                construct = f.qualname
                ctx.instance('C19.i', construct)
                hits = list(affine_sums(f))
                ctx.obligation('C19.i', construct, not hits, {'point_plus_point': [norm(h[0])[:60] for h in hits]} if hits else None,
                               nontrivial=any(isinstance(x, ast.BinOp) and isinstance(x.op, ast.Add) for x in ast.walk(f.node)))
                for node, l, r in hits[:1]:
                    ctx.violation('C19.i', construct, '`%s` adds two absolute positions: the common origin (the position of the cluster / cell they '
                                  'are both measured from) is counted twice, so the result is displaced by that origin whenever it is not 0'
                                  % norm(node)[:90], f.path, node.lineno, operand='point+point')


def check(ctx: Ctx) -> None:
    M = ctx.model
    ctx.assume('E1 assumptions; matplotlib Path.contains_point implements polygon containment; a wrapped cell reads '
               'its radius/rotation from the wrapped object by design')
    # ------------------------------------------------------------------ C19.a
    ctx.rule('C19.a', 'containment reads all placement state the outline reads (per concrete class)', floor=8)
    shape = M.cls('Shape')
    for c in [shape] + M.subclasses(shape):
        if c.name == 'Cluster':
            continue
        vp = M.lookup_property(c, 'vertices')
        test = M.lookup_method(c, 'is_point_inside_shape')
        if vp is None or vp[0] is None or test is None:
            ctx.error('C19.a: %s lacks vertices / is_point_inside_shape' % c.name)
        vreads = _closure_reads(M, c, vp[0]) & PLACEMENT
        treads = _closure_reads(M, c, test)
        for a in sorted(vreads):
            construct = '%s.is_point_inside_shape:%s' % (c.name, a)
            ctx.instance('C19.a', construct)
            if (c.name, a) in EXEMPT:
                ctx.obligation('C19.a', construct, True, {'exempt': EXEMPT[(c.name, a)]}, nontrivial=False)
                continue
            ok = a in treads
            ctx.obligation('C19.a', construct, ok, {'outline_reads': sorted(vreads), 'test_defined_in': test.qualname,
                                                    'test_reads': sorted(treads)})
            if not ok:
                ctx.violation('C19.a', test.qualname, 'the containment test of %s (defined in %s) never reads %s, which its '
                              'outline depends on: a %s %s is not what the test answers for'
                              % (c.name, test.qualname, a, 'rotated' if a == '_rotation' else 'moved/resized', c.name),
                              test.path, test.lineno, operand=a)
    # ------------------------------------------------------------------ C19.b
    ctx.rule('C19.b', 'DSF: sector hexagons of Cell3Sec follow pos/radius/rotation', floor=20)
    analyse_class(ctx, 'C19.b', CELL3SEC, 'Cell3Sec')
    from ..dsf import auto_memo_check
    ctx.rule('C19.d', 'no auto-discovered lazily filled cache of the classes in the anchored modules can be stale at the exit of a public method (dependencies = what the fill expression reads, incl. mutating calls on held sub-objects)', floor=10)
    auto_memo_check(ctx, 'C19.d', [SH, CE])
    from ..commit import check_family
    check_family(ctx, 'C19.e', ['Shape', 'Cluster'], floor=5)
    from ..idioms import check_falsy_zero
    check_falsy_zero(ctx, 'C19.f', [SH, CE], floor=3, plain_float=True)
    _check_affine(ctx)
    from ..idioms import check_parameters_used
    check_parameters_used(ctx, 'C19.j', [SH, CE], floor=40)
    from ..idioms import check_options_forwarded
    check_options_forwarded(ctx, 'C19.k', [SH, CE], floor=30)
    from ..idioms import check_no_stale_derived
    check_no_stale_derived(ctx, 'C19.l', [SH, CE], floor=15)
    from ..idioms import check_shared_memos
    check_shared_memos(ctx, 'C19.m', [SH, CE], floor=10)
    from ..idioms import check_signed_offsets
    check_signed_offsets(ctx, 'C19.n', [SH, CE], floor=40)
    _check_snapshots(ctx)
    _check_back_rotation(ctx)
    _check_add_user(ctx)


def _check_add_user(ctx: Ctx) -> None:
    M = ctx.model
    ctx.rule('C19.c', 'users are appended only after the containment guard; rejection loop keeps both disjuncts', floor=4)
    fn = M.func(CE, 'CellBase.add_user')
    sn = fn.self_name or 'self'

    def is_guard(t: ast.AST) -> bool:
        return any(isinstance(n, ast.Call) and is_self_attr(n.func, sn) == 'is_point_inside_shape' for n in ast.walk(t))

    def guard_flags(t: ast.AST):
        neg = isinstance(t, ast.UnaryOp) and isinstance(t.op, ast.Not)
        return (['outside'], ['inside']) if neg else (['inside'], ['outside'])

    def is_append(c: ast.Call) -> bool:
        f = norm(c.func)
        return f in ('super().add_user', 'AccessPoint.add_user') or f.endswith('_users.append')

    it = FlagInterp(fn, ExcHierarchy(M), test_rules=[
        (lambda t: is_guard(t) and guard_flags(t)[0] == ['outside'], ['outside'], ['inside']),
        (lambda t: is_guard(t) and guard_flags(t)[0] == ['inside'], ['inside'], ['outside']),
    ], call_rules=[(is_append, ['appended'])])
    it.run(FlagInterp.start())
    q = 'CellBase.add_user'
    ctx.instance('C19.c', q)
    appends = [(n, st) for k, n, st in it.events if k == 'call']
    ok = bool(appends) and all(all('inside' in el and 'outside' not in el for el in st) for _, st in appends)
    # the guard must test the position the user ends up with (after the relative -> absolute conversion)
    guard_arg_ok = any(isinstance(n, ast.Call) and is_self_attr(n.func, sn) == 'is_point_inside_shape'
                       and n.args and norm(n.args[0]).endswith('.pos') for n in ast.walk(fn.node))
    ok = ok and guard_arg_ok
    ctx.obligation('C19.c', q, ok, {'append_sites': len(appends), 'guard_on_final_pos': guard_arg_ok})
    if not ok:
        ctx.violation('C19.c', q, 'a user can be appended without having passed the containment test of its final position',
                      fn.path, fn.lineno, operand='guard')
    # every other appender of _users in the cell classes is one of the reasoned ones
    allowed = {
        'AccessPoint.add_user': 'raw appender; reached from CellBase.add_user after the guard',
        'CellBase.add_border_user': 'position comes from get_border_point (on the boundary scaled towards the centre)',
        'Cell3Sec.add_random_user_in_sector': 'users were admitted by the sector hexagon, which follows the cell (C19.b)',
    }
    mod = M.module(CE)
    for c in mod.classes.values():
        for f in c.methods.values():
            for n in ast.walk(f.node):
                if isinstance(n, ast.Call) and isinstance(n.func, ast.Attribute) and n.func.attr in ('append', 'extend', 'insert') \
                        and isinstance(n.func.value, ast.Attribute) and n.func.value.attr == '_users':
                    construct = f.qualname + ':_users.' + n.func.attr
                    ctx.instance('C19.c', construct)
                    ok = f.qualname in allowed
                    ctx.obligation('C19.c', construct, ok, {'reason': allowed.get(f.qualname)}, nontrivial=False)
                    if not ok:
                        ctx.violation('C19.c', f.qualname, 'appends to _users outside the guarded entry points %s'
                                      % sorted(allowed), f.path, n.lineno, operand='appender')
    # overriding add_user methods must end in the guarded one
    base = M.cls('CellBase')
    for c in M.subclasses(base):
        o = c.methods.get('add_user')
        if o is None:
            continue
        construct = c.name + '.add_user:delegates'
        ctx.instance('C19.c', construct)
        ok = any(isinstance(n, ast.Call) and norm(n.func) in ('super().add_user', 'CellBase.add_user') for n in ast.walk(o.node)) \
            and not any(isinstance(n, ast.Attribute) and n.attr == '_users' for n in ast.walk(o.node))
        ctx.obligation('C19.c', construct, ok, None, nontrivial=False)
        if not ok:
            ctx.violation('C19.c', c.name + '.add_user', 'override does not go through the guarded CellBase.add_user',
                          o.path, o.lineno, operand='delegates')
    # rejection loop of add_random_user
    fr = M.func(CE, 'CellBase.add_random_user')
    q = 'CellBase.add_random_user'
    ctx.instance('C19.c', q)
    # every path that reaches the guarded entry add_user(u) has passed, for the u drawn last, BOTH the containment test
    # (true) and the minimum-distance test (not closer) - whatever the loop form (while <reject>, while True/continue/break)
    from ..astutil import expander
    sn2 = fr.self_name or 'self'
    adds = [n for n in walk_no_nested(fr.node) if isinstance(n, ast.Call) and is_self_attr(n.func, sn2) == 'add_user']
    if len(adds) != 1 or not adds[0].args or not isinstance(adds[0].args[0], ast.Name):
        ctx.obligation('C19.c', q, False, {'add_user_calls': len(adds)})
        ctx.violation('C19.c', q, 'the random user does not enter through exactly one add_user(<user>) call', fr.path, fr.lineno,
                      operand='rejection-loop')
        return
    user = adds[0].args[0].id

    def inside_test(t: ast.AST) -> bool:
        return isinstance(t, ast.Call) and is_self_attr(t.func, sn2) == 'is_point_inside_shape' and len(t.args) == 1 \
            and norm(t.args[0]) == user + '.pos'

    def dist_cmp(t: ast.AST):
        """'lt' if t is  dist(user) < min_dist_ratio * radius  ('ge' for the complement), else None."""
        if not (isinstance(t, ast.Compare) and len(t.ops) == 1):
            return None
        l, r, op = t.left, t.comparators[0], t.ops[0]
        def is_dist(e): return isinstance(e, ast.Call) and is_self_attr(e.func, sn2) == 'calc_dist' and len(e.args) == 1 and norm(e.args[0]) == user
        def is_thr(e): return norm(e).replace(' ', '').strip('()') in ('min_dist_ratio*%s.radius' % sn2, '%s.radius*min_dist_ratio' % sn2)
        if is_dist(l) and is_thr(r):
            return {'Lt': 'lt', 'GtE': 'ge'}.get(type(op).__name__)
        if is_thr(l) and is_dist(r):
            return {'Gt': 'lt', 'LtE': 'ge'}.get(type(op).__name__)
        return None

    FL = ['inside', 'outside', 'close', 'far']

    def redraw(s_: ast.stmt) -> bool:
        # the user is rebound, or its position is overwritten: earlier test results no longer describe it
        if not isinstance(s_, (ast.Assign, ast.AnnAssign, ast.AugAssign)):
            return False
        tg = s_.targets if isinstance(s_, ast.Assign) else [s_.target]
        for t_ in tg:
            for x in (t_.elts if isinstance(t_, (ast.Tuple, ast.List)) else [t_]):
                if isinstance(x, ast.Name) and x.id == user:
                    return True
                if isinstance(x, ast.Attribute) and isinstance(x.value, ast.Name) and x.value.id == user and x.attr in ('pos', '_pos'):
                    return True
        return False

    itr = FlagInterp(fr, ExcHierarchy(M), test_rules=[
        (inside_test, ['inside'], ['outside']),
        (lambda t: dist_cmp(t) == 'lt', ['close'], ['far']),
        (lambda t: dist_cmp(t) == 'ge', ['far'], ['close']),
    ], call_rules=[(lambda c: c is adds[0], ['entered'])], kill_rules=[(redraw, FL)], decompose=True, expand=expander(fr))
    itr.run(FlagInterp.start())
    entries = [st for k, n, st in itr.events if k == 'call']
    flat_states = [el for st in entries for el in st]
    missing_inside = any('inside' not in el for el in flat_states)
    missing_far = any('far' not in el for el in flat_states)
    detail = {'states_at_add_user': sorted(sorted(el) for el in flat_states)[:6], 'user': user,
              'containment_passed': not missing_inside, 'min_distance_passed': not missing_far}
    if not flat_states:
        ctx.error('C19.c: add_user of add_random_user is not reachable in the path analysis (cannot tell)')
    ok = not missing_inside and not missing_far
    # a test the recognisers do not know, on a path that lacks a flag, means "cannot tell", not "violated"
    if not ok:
        odd = [norm(a_)[:60] for a_ in itr.unrecognised_atoms if user in norm(a_) or 'dist' in norm(a_)]
        if odd:
            ctx.error('C19.c: the acceptance tests of add_random_user are not all recognised (%s): cannot tell' % odd[:3])
    ctx.obligation('C19.c', q, ok, detail)
    if not ok:
        ctx.violation('C19.c', q, 'the rejection loop does not resample while (outside the cell) or (closer than '
                      'min_dist_ratio*radius), or the user does not enter through add_user: %s' % detail, fr.path, fr.lineno,
                      operand='rejection-loop')


def _check_snapshots(ctx: Ctx) -> None:
    """C19.g: a stored copy of the (settable) placement of held sub-objects is not a source of truth."""
    from ..astutil import stmts_in_order
    M = ctx.model
    ctx.rule('C19.g', 'an attribute that stores copies of the settable placement (pos / radius / rotation) of sub-objects the object hands out '
                      'is never read to compute a result (only to maintain itself): the sub-objects can be moved, the copy cannot follow',
             floor=1)
    settable = set()
    for path in (SH, CE):
        for c in M.module(path).classes.values():
            settable |= set(c.setters)
    for c in M.module(CE).classes.values():
        fns = [f for f in list(c.methods.values()) + list(c.setters.values()) + list(c.getters.values()) if f.self_name is not None]
        snap = {}
        for f in fns:
            sn = f.self_name
            for n in ast.walk(f.node):
                val, attr = None, None
                if isinstance(n, ast.Assign) and len(n.targets) == 1:
                    t = n.targets[0]
                    base = t.value if isinstance(t, ast.Subscript) else t
                    if is_self_attr(base, sn):
                        attr, val = base.attr, n.value
                elif isinstance(n, ast.Call) and isinstance(n.func, ast.Attribute) and n.func.attr in ('append', 'extend', 'insert') \
                        and is_self_attr(n.func.value, sn) and n.args:
                    attr, val = n.func.value.attr, n.args[-1]
                if attr is None or val is None:
                    continue
                reads = [x for x in ast.walk(val) if isinstance(x, ast.Attribute) and isinstance(x.ctx, ast.Load) and x.attr in settable
                         and isinstance(x.value, ast.Name) and x.value.id != sn]
                if reads:
                    snap.setdefault(attr, []).append(norm(reads[0]))
        for attr, srcs in sorted(snap.items()):
            construct = '%s.%s' % (c.name, attr)
            ctx.instance('C19.g', construct)
            readers = []
            for f in fns:
                sn = f.self_name
                for st in stmts_in_order(f):
                    if isinstance(st, (ast.If, ast.For, ast.While, ast.Try, ast.With, ast.FunctionDef, ast.ClassDef)):
                        heads = [getattr(st, 'test', None), getattr(st, 'iter', None)]
                        nodes = [x for h in heads if h is not None for x in ast.walk(h)]
                    else:
                        nodes = list(ast.walk(st))
                        # a statement that stores to the very attribute maintains the copy
                        maintains = any((isinstance(x, (ast.Attribute,)) and isinstance(x.ctx, ast.Store) and is_self_attr(x, sn) == attr) or
                                        (isinstance(x, ast.Subscript) and isinstance(x.ctx, ast.Store) and is_self_attr(x.value, sn) == attr) or
                                        (isinstance(x, ast.Call) and isinstance(x.func, ast.Attribute) and x.func.attr in ('append', 'extend', 'insert', 'clear')
                                         and is_self_attr(x.func.value, sn) == attr) for x in nodes)
                        if maintains:
                            continue
                    for x in nodes:
                        if isinstance(x, ast.Attribute) and isinstance(x.ctx, ast.Load) and is_self_attr(x, sn) == attr:
                            readers.append((f, x))
            ctx.obligation('C19.g', construct, not readers, {'copy_of': sorted(set(srcs))[:3], 'read_in': sorted({f.qualname for f, _ in readers})},
                           nontrivial=True)
            for f, n in readers[:1]:
                ctx.violation('C19.g', f.qualname, 'reads self.%s, a stored copy of `%s`: the cells are handed out and their placement is '
                              'settable, so after a cell was moved the result is computed from its OLD position' % (attr, srcs[0]),
                              f.path, n.lineno, operand='snapshot:' + attr)


def _check_back_rotation(ctx: Ctx) -> None:
    """C19.h: the rectangle test undoes the rotation of the shape on every path, except when the rotation is zero."""
    M = ctx.model
    ctx.rule('C19.h', 'Rectangle containment: every verdict is reached either after the point was rotated back by -rotation about the centre or '
                      'on a path on which the rotation is known to be zero (a multiple of 90 degrees swaps the sides of a non-square rectangle)',
             floor=1)
    fn = M.func(SH, 'Rectangle.is_point_inside_shape')
    sn = fn.self_name or 'self'
    ctx.instance('C19.h', fn.qualname)

    def rot_expr(e: ast.AST) -> bool:
        while isinstance(e, ast.Call) and norm(e.func) in ('np.real', 'float', 'abs', 'np.abs') and e.args:
            e = e.args[0]
        return is_self_attr(e, sn) in ('rotation', '_rotation')

    def classify(t: ast.AST):
        """('ne'|'eq'|'weak', ...) for tests on the rotation: R != 0 / R == 0 / R % k != 0 with k not a multiple of 360"""
        if rot_expr(t):
            return 'ne'
        if isinstance(t, ast.Compare) and len(t.ops) == 1 and isinstance(t.comparators[0], ast.Constant) and t.comparators[0].value == 0:
            l, op = t.left, t.ops[0]
            kind = 'ne' if isinstance(op, ast.NotEq) else ('eq' if isinstance(op, ast.Eq) else None)
            if kind is None:
                return None
            if rot_expr(l):
                return kind
            if isinstance(l, ast.BinOp) and isinstance(l.op, ast.Mod) and rot_expr(l.left) and isinstance(l.right, ast.Constant):
                k = l.right.value
                if isinstance(k, (int, float)) and k != 0 and k % 360 == 0:
                    return kind
                return 'weak-' + kind
        return None

    def mentions_rotation(t: ast.AST) -> bool:
        return any(is_self_attr(x, sn) in ('rotation', '_rotation') for x in ast.walk(t))

    def is_back_rotation(c: ast.Call) -> bool:
        return norm(c.func).endswith('calc_rotated_pos') and len(c.args) == 2 and isinstance(c.args[1], ast.UnaryOp) \
            and isinstance(c.args[1].op, ast.USub) and rot_expr(c.args[1].operand)

    it = FlagInterp(fn, ExcHierarchy(M), test_rules=[
        (lambda t: classify(t) == 'ne', ['rot-nonzero'], ['rot-zero']),
        (lambda t: classify(t) == 'eq', ['rot-zero'], ['rot-nonzero']),
        (lambda t: (classify(t) or '').startswith('weak-'), [], []),
        (lambda t: not mentions_rotation(t), [], []),
    ], call_rules=[(is_back_rotation, ['rotated'])], decompose=True)
    it.run(FlagInterp.start())
    odd = [norm(a)[:60] for a in it.unrecognised_atoms if mentions_rotation(a)]
    bad = [el for st, node in it.exits for el in st if 'rotated' not in el and 'rot-zero' not in el]
    if bad and odd:
        ctx.error('C19.h: a test on the rotation is not of a recognised form (%s): cannot tell' % odd[:2])
    if not any(True for k, n, st in it.events if k == 'call'):
        if bad:
            pass
    ok = not bad
    ctx.obligation('C19.h', fn.qualname, ok, {'verdict_paths': sum(len(st) for st, _ in it.exits), 'paths_without_back_rotation': len(bad)})
    if not ok:
        ctx.violation('C19.h', fn.qualname, 'a verdict is returned without undoing the rotation on a path on which the rotation need not be zero '
                      '(flags %s): for such a rotation the test disagrees with the polygon of the rectangle\'s own vertices'
                      % sorted(sorted(el) for el in bad)[:2], fn.path, fn.lineno, operand='back-rotation')


def synthetic():
    from ..selftest import synthetic_overlay
    from ..report import Ctx as C
    src = '''
class Box:
    def __init__(self):
        self._pos = 0
        self._rotation = 0
        self._lo = 0
    @property
    def vertices(self):
        return self._pos + self._lo * self._rotation
    def is_point_inside_shape(self, p):
        return p > self._lo
'''
    c = C('C19', synthetic_overlay({'pyphysim/syn.py': src}))
    cls = c.model.cls('Box')
    v = _closure_reads(c.model, cls, cls.getters['vertices']) & PLACEMENT
    t = _closure_reads(c.model, cls, cls.methods['is_point_inside_shape'])
    return [('containment-ignores-rotation', sorted(v - t) == ['_pos', '_rotation'])]


MUTANTS = [
    Mutant('border-point-vertical-edge-drops-the-sign', SH, 'Shape.get_border_point',
           [('replace', 'side = np.tan(angle_rad) * adjacent_side', 'side = np.tan(angle_rad) * np.abs(adjacent_side)')],
           r'C19\.n:Shape\.get_border_point:abs-offset:adjacent_side'),
    Mutant('benign-border-point-abs-only-in-a-test', SH, 'Shape.get_border_point',
           [('replace', 'side = np.tan(angle_rad) * adjacent_side', 'side = np.tan(angle_rad) * adjacent_side if np.abs(adjacent_side) >= 0 else 0.0')],
           None, benign=True),
    Mutant('cluster-drops-the-minimum-distance-option', CE, 'Cluster.add_random_users',
           [('replace', 'add_random_user(user_color, min_dist_ratio)', 'add_random_user(user_color)')], r'C19\.k:Cluster\.add_random_users:dropped:min_dist_ratio'),
    Mutant('sector-radius-read-before-the-cell-radius-changes', CE, 'Cell3Sec.radius@setter',
           [('replace', 'self._radius = value\n    secradius = self.secradius', 'secradius = self.secradius\n    self._radius = value')],
           r'C19\.l:Cell3Sec\.radius@setter:stale:secradius'),
    Mutant('ratio-zero-treated-as-unset', CE, 'CellBase._validate_ratio',
           [('replace', 'if ratio == 1.0:', 'if not ratio or ratio == 1.0:')], r'C19\.f:CellBase\._validate_ratio:ratio'),
    Mutant('wrap-around-adds-two-absolute-centres', CE, 'Cluster.create_wrap_around_cells',
           [('regex', r'positions = Cluster\._calc_cell_positions\([^\n]*\)', 'positions = np.array([[c.pos] for c in self._cells])')],
           r'C19\.i:Cluster\.create_wrap_around_cells:point\+point'),
    Mutant('rectangle-skips-back-rotation-mod-90', SH, 'Rectangle.is_point_inside_shape',
           [('replace', 'if self.rotation != 0:', 'if self.rotation % 90 != 0:')], r'C19\.h:Rectangle\.is_point_inside_shape'),
    Mutant('benign-rectangle-always-rotates-back', SH, 'Rectangle.is_point_inside_shape',
           [('regex', r'    if self\.rotation != 0:\n        (point = [^\n]*)\n', r'    \1\n')], None, benign=True),
    Mutant('benign-rectangle-mod-360', SH, 'Rectangle.is_point_inside_shape',
           [('replace', 'if self.rotation != 0:', 'if self.rotation % 360 != 0:')], None, benign=True),
    Mutant('ratio-or-default', SH, 'Shape.get_border_point',
           [('regex', r'    if ratio is None:\n        ratio = 1\.0\n', '    ratio = ratio or 1.0\n')], r'C19\.f:Shape\.get_border_point'),
    Mutant('revert-fix-rectangle-ignores-rotation', SH, 'Rectangle.is_point_inside_shape',
           [('regex', r'def is_point_inside_shape\(self, point: complex\) -> bool:\n.*',
             'def is_point_inside_shape(self, point: complex) -> bool:\n    return bool(self._lower_coord.real <= point.real <= self._upper_coord.real and self._lower_coord.imag <= point.imag <= self._upper_coord.imag)')],
           r'C19\.a:Rectangle\.is_point_inside_shape:_rotation'),
    Mutant('shape-test-uses-untransformed-vertices', SH, 'Shape.is_point_inside_shape',
           [('replace', 'self.vertices', 'self.vertices_no_trans_no_rotation')], r'C19\.a:Shape\.is_point_inside_shape'),
    Mutant('rotation-setter-forgets-sector-2', CE, 'Cell3Sec.rotation@setter',
           [('delete', r'self\._sec2\.pos = ')], r'C19\.b:Cell3Sec\.rotation@setter:_sec2\.pos'),
    Mutant('pos-setter-forgets-sectors', CE, 'Cell3Sec.pos@setter',
           [('delete', r'self\._sec1\.pos = '), ('delete', r'self\._sec2\.pos = '), ('delete', r'self\._sec3\.pos = ')],
           r'C19\.b:Cell3Sec\.pos@setter:_sec\d\.pos'),
    Mutant('append-before-guard', CE, 'CellBase.add_user',
           [('regex', r'(\n    if not self\.is_point_inside_shape)', r'\n    super().add_user(new_user)\1')], r'C19\.c:CellBase\.add_user'),
    Mutant('drop-min-dist-disjunct', CE, 'CellBase.add_random_user',
           [('regex', r'while not self\.is_point_inside_shape\(new_user\.pos\) or [^\n]*:', 'while not self.is_point_inside_shape(new_user.pos):')],
           r'C19\.c:CellBase\.add_random_user'),
    Mutant('new-raw-appender', CE, 'Cell.plot', [('regex', r'\n', '\n    self._users.append(None)\n')], r'C19\.c:Cell\.plot'),
    Mutant('benign-cache-vertices-in-local', SH, 'Shape.is_point_inside_shape',
           [('replace', 'mpl_path = path.Path(from_complex_array_to_real_matrix(self.vertices))',
             'v = self.vertices\n    mpl_path = path.Path(from_complex_array_to_real_matrix(v))')], None, benign=True),
]

ENGINES = ['model', 'dsf', 'paths']
TECHNIQUE = ('static analysis: transitive attribute read-set comparison (observer dependency), derived-state freshness '
             'dataflow for sub-objects, guard-dominance path rule')


def sweep(overlay):
    from ..dsf import dsf_sweep
    from ..selftest import sweep_lines
    out = dsf_sweep(overlay, CELL3SEC, 'C19')
    out += sweep_lines(overlay, CE, 'CellBase.add_user', lambda t: t.startswith('raise '), 'C19')
    return out
