"""C16 - theoretical error-rate curves: the compositions the statement spells out, as terms."""
from __future__ import annotations

import ast
from fractions import Fraction
from typing import Dict, List, Optional, Tuple

from .. import terms as T
from ..model import FuncInfo, norm, walk_no_nested
from ..report import Ctx
from ..selftest import Mutant

FUND = 'pyphysim/modulators/fundamental.py'
MISC = 'pyphysim/util/misc.py'

EXPLANATION = (
    'Decides two structural clauses of C16 as identities of TERMS (function bodies extracted from the source and '
    'normalised symbolically; nothing is evaluated). C16.a: PER = 1-(1-BER)^L with BER the virtual '
    'calcTheoreticalBER at the same SNR; spectral efficiency = K(1-PER(SNR,L)) / K(1-BER) without a packet length; '
    'PSK: BER = SER/level2bits(M); BPSK: BER = SER; QAM: SER = 1-(1-Psc)^2 and BER = 2 Psc/k over the same Psc '
    'provider (which make BER <= SER <= log2(M) BER hold by construction); Q(x) = erfc(x/sqrt2)/2; every SER formula '
    'converts its dB argument with dB2Linear exactly once before it enters sqrt/qfunc; every concrete modulator '
    'defines both SER and BER. C16.b: the argument of the Q function uses the scale of the EMITTED constellation: '
    'QAM arg^2 = 2 snr h^2/average_energy with h and average_energy read from _createConstellation; PSK arg = '
    'sqrt(2 snr) r sin(half the angular step) with r and the step read from _createConstellation; BPSK arg = '
    'sqrt(2 snr) d for the literal +-d table. Not decided: values in [0,1], monotonicity, limits, the neighbour '
    'multiplicities (real analysis of erfc compositions).'
    ' General rules also applied here (see DESIGN 10.5): input immutability (no in-place modification of an array argument, alias- and view-aware). C16.e: a class that overrides the BER curve keeps BER <= SER <= log2(M) BER against its own SER curve (a*Q(x) forms).')


def _self_atom(meth: str, *args: T.Term) -> T.Term:
    return T.Term.atom(('call', 'self.' + meth, tuple(a.key() for a in args)))


def _spec(src: str, **sym: T.Term) -> T.Term:
    return T.parse_spec(src, None, **sym)


def _cmp(ctx: Ctx, rule: str, construct: str, fn: FuncInfo, got: T.Term, want: T.Term, what: str) -> None:
    ctx.instance(rule, construct)
    ok = got == want
    ctx.obligation(rule, construct, ok, {'normal_form': got.pretty(), 'specification': want.pretty()})
    if not ok:
        ctx.violation(rule, fn.qualname.split('@')[0], '%s: the body normalises to `%s` but the property states `%s`'
                      % (what, got.pretty(), want.pretty()), fn.path, fn.lineno, operand=construct.split(':')[-1])


# the vocabulary of the specification: these calls stay uninterpreted, every other repo callee (a helper extracted by a
# refactoring, a module constant) is looked through
VOCAB = {'calcTheoreticalBER', 'calcTheoreticalSER', 'calcTheoreticalPER', '_calcTheoreticalSingleCarrierErrorRate',
         'dB2Linear', 'qfunc', 'level2bits', 'erfc'}


def _one(ctx: Ctx, fn: FuncInfo, inline=None) -> T.Term:
    try:
        ps = T.path_terms(ctx.model, fn, inline, opaque=VOCAB)
    except T.Unknown as e:
        ctx.error('C16: cannot normalise %s: %s' % (fn.qualname, e))
    ts = {t for _, t in ps}
    if len(ts) != 1:
        ctx.error('C16: %s has %d different formulas on its paths' % (fn.qualname, len(ts)))
    return ts.pop()


def check(ctx: Ctx) -> None:
    M = ctx.model
    ctx.assume('real arithmetic; self.<method>(...) calls are virtual and uninterpreted; np/math spellings of the same '
               'operator are identified; the QAM grid is built by the literal complex(-(L-1)+2jj, (L-1)-2ii) loop')
    # ------------------------------------------------------------------ C16.c
    ctx.rule('C16.c', 'the theoretical-curve functions are pure formula evaluations: no store to the modulator (no memo keyed on the '
                      'argument, no history dependence)', floor=8)
    from ..model import is_self_attr
    base = M.cls('Modulator')
    for c in [base] + M.subclasses(base):
        for f in c.methods.values():
            if 'Theoretical' not in f.name:
                continue
            ctx.instance('C16.c', f.qualname)
            stores = [(n.attr, n.lineno) for n in ast.walk(f.node) if isinstance(n, ast.Attribute) and isinstance(n.ctx, (ast.Store, ast.Del))
                      and is_self_attr(n, f.self_name or 'self')]
            ctx.obligation('C16.c', f.qualname, not stores, {'stores': stores} if stores else None, nontrivial=bool(stores))
            for a, line in stores:
                ctx.violation('C16.c', f.qualname, 'stores self.%s: the theoretical curve becomes a function of the call history (e.g. a memo '
                              'keyed on the identity of the SNR array returns stale values after the array is refilled in place)' % a,
                              f.path, line, operand=a)
    from ..idioms import check_none_tests
    check_none_tests(ctx, 'C16.f', [FUND], floor=1)            # cheap definite rule first
    from ..idioms import check_no_whole_array_regimes
    check_no_whole_array_regimes(ctx, 'C16.h', [FUND, 'pyphysim/util/misc.py', 'pyphysim/util/conversion.py'], floor=60)
    from ..idioms import check_shared_memos
    check_shared_memos(ctx, 'C16.g', [FUND], floor=4)
    ctx.rule('C16.a', 'PER/SE/BER/SER compositions equal the specification terms', floor=12)
    SNR, L = T.Term.sym('SNR'), T.Term.sym('packet_length')
    B = _self_atom('calcTheoreticalBER', SNR)
    # --- PER
    fn = M.func(FUND, 'Modulator.calcTheoreticalPER')
    _cmp(ctx, 'C16.a', 'Modulator.calcTheoreticalPER:PER', fn, _one(ctx, fn), _spec('1 - (1 - B)**packet_length', B=B),
         'packet error rate')
    # --- spectral efficiency (two paths)
    fn = M.func(FUND, 'Modulator.calcTheoreticalSpectralEfficiency')
    try:
        paths = T.path_terms(M, fn, opaque=VOCAB)
    except T.Unknown as e:
        ctx.error('C16.a: cannot normalise %s: %s' % (fn.qualname, e))
    K = T.Term.sym('self.K')
    PER = _self_atom('calcTheoreticalPER', SNR, L)
    want = {True: K * (T.Term.const(1) - B), False: K * (T.Term.const(1) - PER)}
    seen = set()
    for conds, t in paths:
        cs = [c.replace(' ', '') for c in conds]
        none_branch = any(c in ('packet_lengthisNone', 'not(packet_lengthisnotNone)', 'notpacket_lengthisnotNone') for c in cs)
        some_branch = any(c in ('packet_lengthisnotNone', 'not(packet_lengthisNone)', 'notpacket_lengthisNone') for c in cs)
        if not none_branch and not some_branch:
            ctx.error('C16.a: a path of the spectral efficiency is not decided by a test of packet_length against None (%s): cannot tell' % conds)
        seen.add(none_branch)
        _cmp(ctx, 'C16.a', 'Modulator.calcTheoreticalSpectralEfficiency:%s' % ('SE-no-length' if none_branch else 'SE'),
             fn, t, want[none_branch], 'spectral efficiency')
    if seen != {True, False}:
        ctx.error('C16.a: spectral efficiency no longer branches on `packet_length is None`')
    # --- PSK / BPSK
    fn = M.func(FUND, 'PSK.calcTheoreticalBER')
    S = _self_atom('calcTheoreticalSER', SNR)
    _cmp(ctx, 'C16.a', 'PSK.calcTheoreticalBER:BER', fn, _one(ctx, fn), _spec('S / level2bits(self._M)', S=S), 'PSK bit error rate')
    fn = M.func(FUND, 'BPSK.calcTheoreticalBER')
    _cmp(ctx, 'C16.a', 'BPSK.calcTheoreticalBER:BER', fn, _one(ctx, fn), S, 'BPSK bit error rate')
    # --- QAM
    P = _self_atom('_calcTheoreticalSingleCarrierErrorRate', SNR)
    fn = M.func(FUND, 'QAM.calcTheoreticalSER')
    _cmp(ctx, 'C16.a', 'QAM.calcTheoreticalSER:SER', fn, _one(ctx, fn), _spec('1 - (1 - P)**2', P=P), 'QAM symbol error rate')
    fn = M.func(FUND, 'QAM.calcTheoreticalBER')
    _cmp(ctx, 'C16.a', 'QAM.calcTheoreticalBER:BER', fn, _one(ctx, fn), _spec('2 * P / level2bits(self._M)', P=P), 'QAM bit error rate')
    # --- Q function
    fn = M.func(MISC, 'qfunc')
    _cmp(ctx, 'C16.a', 'qfunc:Q', fn, _one(ctx, fn), _spec('erfc(x / 2**0.5) / 2'), 'Gaussian tail function')
    # --- dB conversion exactly once
    sers = [('PSK.calcTheoreticalSER', None), ('BPSK.calcTheoreticalSER', None),
            ('QAM._calcTheoreticalSingleCarrierErrorRate', None)]
    ser_terms: Dict[str, T.Term] = {}
    for q, _ in sers:
        fn = M.func(FUND, q)
        t = _one(ctx, fn)
        ser_terms[q] = t
        construct = q + ':dB-once'
        ctx.instance('C16.a', construct)
        ok, why = _db_once(t)
        ctx.obligation('C16.a', construct, ok, {'normal_form': t.pretty(), 'why': why})
        if not ok:
            ctx.violation('C16.a', q, 'the dB argument does not enter the formula through exactly one dB2Linear '
                          'conversion: %s (normal form `%s`)' % (why, t.pretty()), fn.path, fn.lineno, operand='dB-once')
    # --- both curves defined by every concrete modulator
    base = M.cls('Modulator')
    for c in M.subclasses(base):
        for meth in ('calcTheoreticalSER', 'calcTheoreticalBER'):
            construct = '%s.%s:defined' % (c.name, meth)
            ctx.instance('C16.a', construct)
            m = M.lookup_method(c, meth)
            ok = m is not None and m.cls is not base
            ctx.obligation('C16.a', construct, ok, {'resolved_to': m.qualname if m else None}, nontrivial=False)
            if not ok:
                ctx.violation('C16.a', c.name, '%s inherits the NotImplemented stub of %s' % (c.name, meth),
                              c.module.path, c.node.lineno, operand=meth)
    _check_scale(ctx, ser_terms)
    _check_overrides(ctx, ser_terms)
    _check_ber_overrides(ctx)
    from ..idioms import check_input_immutability, public_api
    fns = [f for f in public_api(ctx.model, [FUND]) if 'Theoretical' in f.name] + public_api(ctx.model, [MISC], include={'qfunc'})
    check_input_immutability(ctx, 'C16.d', fns, floor=8)
def _db_once(t: T.Term) -> Tuple[bool, str]:
    n_conv = 0
    bare = 0

    def rec(term: T.Term, inside_conv: bool) -> None:
        nonlocal n_conv, bare
        for m, _ in term.terms:
            for a, _e in m:
                if a[0] == 'sym' and a[1] == 'SNR' and not inside_conv:
                    bare += 1
                elif a[0] == 'call':
                    is_conv = a[1].split('.')[-1] == 'dB2Linear'
                    if is_conv:
                        if inside_conv:
                            bare += 1       # nested conversion
                        arg = T._t(a[2][0])
                        if arg != T.Term.sym('SNR'):
                            bare += 1
                    for x in a[2]:
                        if not (isinstance(x, tuple) and x and x[0] == 'kw'):
                            rec(T._t(x), inside_conv or is_conv)
                elif a[0] == 'pow':
                    rec(T._t(a[1]), inside_conv)
                    rec(T._t(a[2]), inside_conv)
    rec(t, False)
    convs = {a for a in T.atoms_of(t) if a[0] == 'call' and a[1].split('.')[-1] == 'dB2Linear'}
    if bare:
        return False, 'SNR (in dB) is used without / with a nested or modified dB2Linear conversion'
    if len(convs) != 1:
        return False, '%d distinct dB2Linear conversions' % len(convs)
    return True, 'one conversion dB2Linear(SNR)'


def _qfunc_arg(t: T.Term) -> Optional[T.Term]:
    args = [a for a in T.atoms_of(t) if a[0] == 'call' and a[1].split('.')[-1] == 'qfunc']
    keys = {a[2] for a in args}
    if len(keys) != 1:
        return None
    return T._t(args[0][2][0])


def _check_scale(ctx: Ctx, ser_terms: Dict[str, T.Term]) -> None:
    M = ctx.model
    ctx.rule('C16.b', 'the Q-function argument uses the scale of the emitted constellation', floor=3)
    snr = T.Term.atom(('call', 'dB2Linear', (T.Term.sym('SNR').key(),)))
    two = T.Term.const(2)
    half = T.Term.const(Fraction(1, 2))
    # ------------------------------------------------------------------ QAM
    cc = M.func(FUND, 'QAM._createConstellation')
    loc = T.local_terms(M, cc, opaque=set())
    # the mean-energy local, whatever it is called: the local whose square root divides the returned table
    rets0 = [n for n in walk_no_nested(cc.node) if isinstance(n, ast.Return)]
    ename = None
    divs = []
    if len(rets0) == 1 and isinstance(rets0[0].value, ast.BinOp) and isinstance(rets0[0].value.op, ast.Div):
        divs = [rets0[0].value.right]
    divs += [n.value for n in cc.node.body if isinstance(n, ast.AugAssign) and isinstance(n.op, ast.Div)]
    from ..astutil import single_locals as _sl16
    for dv in divs:
        for x in ast.walk(_sl16(cc).get(dv.id, dv) if isinstance(dv, ast.Name) else dv):
            if isinstance(x, ast.Call) and norm(x.func) in ('math.sqrt', 'np.sqrt') and x.args and isinstance(x.args[0], ast.Name):
                ename = x.args[0].id
    if ename is None and 'average_energy' in loc:
        ename = 'average_energy'
    if ename is None or ename not in loc:
        ctx.error('C16.b: QAM._createConstellation no longer divides its table by the square root of a mean-energy formula held in a local')
    if ename != 'average_energy':
        loc['average_energy'] = loc[ename]
    E = T.substitute(loc['average_energy'], {'M': T.Term.sym('self._M')})
    # returned table is symbols / sqrt(average_energy)
    rets = [n for n in walk_no_nested(cc.node) if isinstance(n, ast.Return)]
    # the returned table is symbols / sqrt(average_energy): out of place, or in place (`symbols /= ..; return symbols`); the divisor is
    # compared as a TERM, so naming it first (`scale = math.sqrt(average_energy)`) changes nothing
    def _is_sqrt_E(e: ast.AST) -> bool:
        try:
            env_ = T.Env(M, cc, opaque=set())
            env_.vars.update(loc)
            return T.from_ast(e, env_) == T.t_pow(loc['average_energy'], T.Term.const(Fraction(1, 2)))
        except T.Unknown:
            return False
    norm_ok = False
    if len(rets) == 1 and isinstance(rets[0].value, ast.BinOp) and isinstance(rets[0].value.op, ast.Div) \
            and isinstance(rets[0].value.left, ast.Name):
        norm_ok = _is_sqrt_E(rets[0].value.right)
    elif len(rets) == 1 and isinstance(rets[0].value, ast.Name):
        augs = [n for n in cc.node.body if isinstance(n, ast.AugAssign) and isinstance(n.target, ast.Name) and n.target.id == rets[0].value.id]
        norm_ok = len(augs) == 1 and isinstance(augs[0].op, ast.Div) and _is_sqrt_E(augs[0].value)
    # half spacing of the grid from the complex(...) literal
    h2 = None
    for n in walk_no_nested(cc.node):
        if isinstance(n, ast.Call) and isinstance(n.func, ast.Name) and n.func.id == 'complex' and len(n.args) == 2:
            try:
                env = T.Env(M, cc, opaque=set())
                re_t, im_t = T.from_ast(n.args[0], env), T.from_ast(n.args[1], env)
            except T.Unknown:
                continue
            # the two grid coordinates: whichever loop variable each part depends on (two different ones); a variable that runs through
            # `range(lo, hi, step)` itself is lo + step * position
            from ..astutil import loop_progressions
            progs = loop_progressions(cc)
            loop_vars = {t.id for l_ in walk_no_nested(cc.node) if isinstance(l_, ast.For) for t in ast.walk(l_.target) if isinstance(t, ast.Name)}
            rv0 = {a[1] for a in T.atoms_of(re_t) if a[0] == 'sym' and a[1] in progs}
            iv0 = {a[1] for a in T.atoms_of(im_t) if a[0] == 'sym' and a[1] in progs}
            if len(rv0) == 1 and len(iv0) == 1 and rv0 != iv0:
                sr, si = progs[next(iter(rv0))][1], progs[next(iter(iv0))][1]
                cr = T.coefficient_of(re_t, lambda a: a == ('sym', next(iter(rv0))))
                ci_ = T.coefficient_of(im_t, lambda a: a == ('sym', next(iter(iv0))))
                if cr.is_const() and ci_.is_const() and abs(cr.const_value() * sr) == abs(ci_.const_value() * si) != 0:
                    h2 = (cr.const_value() * sr / 2) ** 2
                    continue
            rv_ = {a[1] for a in T.atoms_of(re_t) if a[0] == 'sym' and a[1] in loop_vars}
            iv_ = {a[1] for a in T.atoms_of(im_t) if a[0] == 'sym' and a[1] in loop_vars}
            if len(rv_) != 1 or len(iv_) != 1 or rv_ == iv_:
                continue
            cj = T.coefficient_of(re_t, lambda a: a == ('sym', next(iter(rv_))))
            ci = T.coefficient_of(im_t, lambda a: a == ('sym', next(iter(iv_))))
            if cj.is_const() and ci.is_const() and abs(cj.const_value()) == abs(ci.const_value()) != 0:
                h2 = (cj.const_value() / 2) ** 2
    if h2 is None:
        # vectorised grid: the levels are stored through `symbols.real = tile/repeat(<a + c * arange(L)>, L)`
        env = T.Env(M, cc, opaque=set())
        env.vars.update(loc)
        # index grids: ii, jj = np.indices((L, L)) / np.meshgrid(...)
        index_syms = set()
        for n in walk_no_nested(cc.node):
            if isinstance(n, ast.Assign) and isinstance(n.targets[0], ast.Tuple) and isinstance(n.value, ast.Call) \
                    and norm(n.value.func) in ('np.indices', 'np.meshgrid', 'np.mgrid', 'np.ogrid'):
                index_syms |= {x.id for x in n.targets[0].elts if isinstance(x, ast.Name)}
        coefs = []
        for n in walk_no_nested(cc.node):
            if isinstance(n, ast.Assign) and isinstance(n.targets[0], ast.Attribute) and n.targets[0].attr in ('real', 'imag'):
                v = n.value
                while isinstance(v, ast.Call) and norm(v.func) in ('np.tile', 'np.repeat', 'np.asarray', 'np.array') and v.args:
                    v = v.args[0]
                try:
                    t_ = T.from_ast(v, env)
                except T.Unknown:
                    continue
                c_ = T.coefficient_of(t_, lambda a: (a[0] == 'call' and a[1].split('.')[-1] == 'arange') or (a[0] == 'sym' and a[1] in index_syms))
                if c_.is_const() and c_.const_value() != 0:
                    coefs.append(abs(c_.const_value()))
        if len(coefs) == 2 and coefs[0] == coefs[1]:
            h2 = (coefs[0] / 2) ** 2
    construct = 'QAM:scale'
    ctx.instance('C16.b', construct)
    arg = _qfunc_arg(ser_terms['QAM._calcTheoreticalSingleCarrierErrorRate'])
    if arg is None or h2 is None or not norm_ok:
        ctx.error('C16.b: QAM anchors not recognised (qfunc argument %s, grid spacing %s, normalisation %s)'
                  % (arg is not None, h2, norm_ok))
    got = T.t_pow(arg, two)
    want = two * snr * T.Term.const(h2) * T.t_pow(E, T.Term.const(-1))
    # compare after clearing the denominator (both are rational in self._M): got * E == 2 snr h^2
    ok = T.rat_equal(got, want)
    ctx.obligation('C16.b', construct, ok, {'qfunc_arg_squared': got.pretty(), 'average_energy': E.pretty(),
                                            'half_spacing_squared': str(h2)})
    if not ok:
        ctx.violation('C16.b', 'QAM', 'the QAM error-rate formula assumes (d_min/2)^2/N0 = `%s` but the emitted grid has '
                      'half spacing^2 %s and is divided by sqrt(average_energy = %s): formula and constellation drifted '
                      'apart' % (got.pretty(), h2, E.pretty()), FUND, cc.lineno, operand='scale')
    # ------------------------------------------------------------------ PSK
    cp = M.func(FUND, 'PSK._createConstellation')
    loc = T.local_terms(M, cp, opaque=set())
    construct = 'PSK:scale'
    ctx.instance('C16.b', construct)
    need = {'phases', 'realPart', 'imagPart'}
    if not need <= set(loc):
        ctx.error('C16.b: PSK._createConstellation locals %s not all plain formulas' % sorted(need - set(loc)))
    step = T.coefficient_of(loc['phases'], lambda a: a[0] == 'call' and a[1].split('.')[-1] == 'arange')
    ph = loc['phases']
    r_cos = T.coefficient_of(loc['realPart'], lambda a: a[0] == 'call' and a[1].split('.')[-1] == 'cos' and T._t(a[2][0]) == ph)
    r_sin = T.coefficient_of(loc['imagPart'], lambda a: a[0] == 'call' and a[1].split('.')[-1] == 'sin' and T._t(a[2][0]) == ph)
    rets = [n for n in walk_no_nested(cp.node) if isinstance(n, ast.Return)]
    ret_ok = len(rets) == 1 and norm(rets[0].value) in ('realPart + 1j * imagPart', 'realPart + imagPart * 1j')
    if not ret_ok and len(rets) == 1:
        # any spelling of  realPart + 1j * imagPart  (e.g. built up in place in a local)
        try:
            env_ = T.Env(M, cp, opaque=set())
            env_.vars.update(loc)
            rt = T.from_ast(rets[0].value, env_)
            ret_ok = rt == loc['realPart'] + T.Term.sym('1j') * loc['imagPart']
        except (T.Unknown, KeyError):
            ret_ok = False
    arg = _qfunc_arg(ser_terms['PSK.calcTheoreticalSER'])
    if arg is None or not ret_ok:
        ctx.error('C16.b: PSK anchors not recognised')
    half_step = T.substitute(step * half, {'M': T.Term.sym('self._M')})
    want = T.t_pow(two * snr, half) * r_cos * T.t_call('sin', [half_step])
    ok = r_cos == r_sin and arg == want
    ctx.obligation('C16.b', construct, ok, {'qfunc_arg': arg.pretty(), 'expected': want.pretty(), 'radius': r_cos.pretty(),
                                            'angular_step': step.pretty()})
    if not ok:
        ctx.violation('C16.b', 'PSK', 'the PSK error-rate formula uses `%s` but the emitted constellation has radius %s '
                      'and angular step %s, i.e. sqrt(2 snr) r sin(step/2) = `%s`'
                      % (arg.pretty(), r_cos.pretty(), step.pretty(), want.pretty()), FUND, cp.lineno, operand='scale')
    # ------------------------------------------------------------------ BPSK
    bi = M.func(FUND, 'BPSK.__init__')
    construct = 'BPSK:scale'
    ctx.instance('C16.b', construct)
    d = None
    for n in walk_no_nested(bi.node):
        if isinstance(n, ast.Call) and isinstance(n.func, ast.Attribute) and n.func.attr == 'setConstellation' and n.args:
            a = n.args[0]
            lst = a.args[0] if isinstance(a, ast.Call) and a.args else a
            if isinstance(lst, (ast.List, ast.Tuple)) and len(lst.elts) == 2:
                from ..astutil import const_value
                v = [const_value(e) for e in lst.elts]
                if None not in v and v[0] == -v[1] != 0:
                    d = Fraction(abs(v[0]))
    arg = _qfunc_arg(ser_terms['BPSK.calcTheoreticalSER'])
    if arg is None or d is None:
        ctx.error('C16.b: BPSK anchors not recognised (literal +-d table / qfunc argument)')
    want = T.t_pow(two * snr, half) * T.Term.const(d)
    ok = arg == want
    ctx.obligation('C16.b', construct, ok, {'qfunc_arg': arg.pretty(), 'expected': want.pretty(), 'table': '+-%s' % d})
    if not ok:
        ctx.violation('C16.b', 'BPSK', 'the BPSK error-rate formula uses `%s` but the emitted table is +-%s, i.e. '
                      'sqrt(2 snr) d = `%s`' % (arg.pretty(), d, want.pretty()), FUND, bi.lineno, operand='scale')


def _check_overrides(ctx: Ctx, reference: Dict[str, T.Term]) -> None:
    """C16.b for every OTHER concrete class: a subclass that brings its own SER formula must still use the scale of the
    constellation it emits (its family's generator, with the cardinality its constructor fixes)."""
    M = ctx.model
    base = M.cls('Modulator')
    fam = {'PSK': 'PSK.calcTheoreticalSER', 'BPSK': 'BPSK.calcTheoreticalSER', 'QAM': 'QAM._calcTheoreticalSingleCarrierErrorRate'}
    covered = {M.func(FUND, q.replace('._calcTheoreticalSingleCarrierErrorRate', '.calcTheoreticalSER')).qualname for q in fam.values()}
    snr = T.Term.atom(('call', 'dB2Linear', (T.Term.sym('SNR').key(),)))
    for c in M.subclasses(base):
        f = M.lookup_method(c, 'calcTheoreticalSER')
        if f is None or f.qualname in covered:
            continue
        construct = '%s:scale' % c.name
        ctx.instance('C16.b', construct)
        roots = [k.name for k in M.mro(c) if k.name in fam]
        if not roots:
            ctx.error('C16.b: %s brings its own SER formula and belongs to no known constellation family (cannot tell)' % c.name)
        root = roots[0]
        # literal cardinality fixed by the constructor: super().__init__(M, ...)
        mval = None
        init = c.methods.get('__init__')
        if init is not None:
            for n in ast.walk(init.node):
                if isinstance(n, ast.Call) and norm(n.func) in ('super().__init__', root + '.__init__') and n.args:
                    a0 = n.args[1] if norm(n.func) != 'super().__init__' and len(n.args) > 1 else n.args[0]
                    if isinstance(a0, ast.Constant) and isinstance(a0.value, int):
                        mval = a0.value
        want_arg = _qfunc_arg(reference[fam[root]])
        got_arg = _qfunc_arg(_one(ctx, f))
        if want_arg is None or got_arg is None:
            ctx.error('C16.b: cannot extract the Q-function argument of %s / its family %s (cannot tell)' % (f.qualname, root))
        if mval is not None:
            want_arg = T.substitute(want_arg, {'self._M': T.Term.const(mval)})
            got_arg = T.substitute(got_arg, {'self._M': T.Term.const(mval)})
        two = T.Term.const(2)
        # both arguments are positive: compare their squares (radicals of products are not distributed by the normaliser)
        ok = got_arg == want_arg or T.rat_equal(T.t_pow(got_arg, two), T.t_pow(want_arg, two))
        ctx.obligation('C16.b', construct, ok, {'own_formula_in': f.qualname, 'qfunc_arg': got_arg.pretty(), 'family_scale': want_arg.pretty(),
                                                'cardinality': mval})
        if not ok:
            ctx.violation('C16.b', f.qualname, '%s overrides the SER curve with Q-function argument `%s`, but the constellation it emits (family %s%s) '
                          'has the scale `%s`' % (c.name, got_arg.pretty(), root, ', M=%s' % mval if mval else '', want_arg.pretty()),
                          f.path, f.lineno, operand='scale:' + c.name)


def _q_form(t: T.Term):
    """(coefficient, argument) when t = coefficient * qfunc(argument) and the coefficient is free of qfunc."""
    qs = {a for a in T.atoms_of(t) if a[0] == 'call' and a[1].split('.')[-1] == 'qfunc'}
    if len(qs) != 1:
        return None
    q = qs.pop()
    coef = T.coefficient_of(t, lambda a: a == q)
    if coef * T.Term.atom(q) != t:
        return None
    return coef, T._t(q[2][0])


def _check_ber_overrides(ctx: Ctx) -> None:
    """C16.e: a concrete class that brings its OWN bit-error curve must keep BER <= SER <= log2(M) BER against the symbol-error
    curve the same class resolves to.  Decided when both curves have the form a*Q(x): equal arguments -> a_ser/log2(M) <=
    a_ber <= a_ser; arguments that differ by a constant factor -> violated for large (factor > 1) or small SNR... in fact for
    SNR -> infinity, since Q(c x)/Q(x) tends to 0 (c > 1) or to infinity (c < 1)."""
    import math
    M = ctx.model
    ctx.rule('C16.e', 'a class that overrides the bit-error curve keeps BER <= SER <= log2(M) x BER against the symbol-error curve it resolves to '
                      '(same Q-function argument, coefficient between 1/log2(M) and 1 of the SER coefficient)', floor=0)
    base = M.cls('Modulator')
    covered = {'PSK.calcTheoreticalBER', 'BPSK.calcTheoreticalBER', 'QAM.calcTheoreticalBER', 'Modulator.calcTheoreticalBER'}
    SNR = T.Term.sym('SNR')

    def expanded(c, meth, depth=0):
        f = M.lookup_method(c, meth)
        if f is None or f.cls is base or depth > 4:
            return None
        t = _one(ctx, f)
        def own(name):
            return lambda args: expanded(c, name, depth + 1) if len(args) == 1 and args[0] == SNR else None
        return T.substitute(t, {}, calls={'self.calcTheoreticalSER': own('calcTheoreticalSER'),
                                          'self._calcTheoreticalSingleCarrierErrorRate': own('_calcTheoreticalSingleCarrierErrorRate'),
                                          'self.calcTheoreticalBER': own('calcTheoreticalBER')})

    for c in M.subclasses(base):
        f = M.lookup_method(c, 'calcTheoreticalBER')
        construct = '%s:ber-vs-ser' % c.name
        ctx.instance('C16.e', construct)
        if f is None or f.qualname in covered:
            ctx.obligation('C16.e', construct, True, {'resolved_to': f.qualname if f else None, 'checked_by': 'C16.a'}, nontrivial=False)
            continue
        mval = None
        init = c.methods.get('__init__')
        if init is not None:
            for n in ast.walk(init.node):
                if isinstance(n, ast.Call) and isinstance(n.func, ast.Attribute) and n.func.attr == '__init__' and n.args:
                    for a0 in n.args[:2]:
                        if isinstance(a0, ast.Constant) and isinstance(a0.value, int) and not isinstance(a0.value, bool):
                            mval = a0.value
                            break
        ber, ser = expanded(c, 'calcTheoreticalBER'), expanded(c, 'calcTheoreticalSER')
        if ber is None or ser is None:
            ctx.error('C16.e: cannot expand the BER / SER curves of %s (cannot tell)' % c.name)
        k = None
        if mval is not None and mval >= 2 and mval & (mval - 1) == 0:
            k = int(math.log2(mval))
            sub = {'self._M': T.Term.const(mval), 'self.M': T.Term.const(mval), 'self._K': T.Term.const(k), 'self.K': T.Term.const(k)}
            l2b = {'level2bits': lambda args: T.Term.const(int(math.log2(int(args[0].const_value())))) if args[0].is_const() else None,
                   'log2': lambda args: T.Term.const(int(math.log2(int(args[0].const_value())))) if args[0].is_const() and args[0].const_value() > 0
                   and float(math.log2(args[0].const_value())).is_integer() else None}
            ber, ser = T.substitute(T.substitute(ber, sub), {}, calls=l2b), T.substitute(T.substitute(ser, sub), {}, calls=l2b)
        qb, qs = _q_form(ber), _q_form(ser)
        det = {'own_formula_in': f.qualname, 'ber': ber.pretty(), 'ser': ser.pretty(), 'cardinality': mval}
        if qb is None or qs is None or k is None:
            ctx.error('C16.e: %s overrides the BER curve with `%s` (SER `%s`, cardinality %s): not both of the form a*Q(x) with a literal '
                      'cardinality - cannot tell' % (c.name, ber.pretty(), ser.pretty(), mval))
        two = T.Term.const(2)
        ratio = T.t_pow(qb[1], two) * T.t_pow(qs[1], T.Term.const(-2))
        same = qb[1] == qs[1] or T.rat_equal(T.t_pow(qb[1], two), T.t_pow(qs[1], two))
        if not same and not ratio.is_const():
            ctx.error('C16.e: the Q-function arguments of the BER (`%s`) and SER (`%s`) curves of %s are not constant multiples: cannot tell'
                      % (qb[1].pretty(), qs[1].pretty(), c.name))
        if not same:
            r = ratio.const_value()
            ctx.obligation('C16.e', construct, False, dict(det, squared_argument_ratio=str(r)))
            ctx.violation('C16.e', f.qualname, '%s overrides the bit-error curve with %s while its symbol-error curve is %s: the Q-function '
                          'arguments differ by the factor sqrt(%s), so BER/SER tends to %s as the SNR grows and BER <= SER <= %d x BER fails'
                          % (c.name, ber.pretty(), ser.pretty(), r, '0' if r > 1 else 'infinity', k), f.path, f.lineno, operand='ber:' + c.name)
            continue
        if not (qb[0].is_const() and qs[0].is_const()):
            ctx.error('C16.e: non-constant coefficients in the BER/SER curves of %s: cannot tell' % c.name)
        ab, a_s = qb[0].const_value(), qs[0].const_value()
        ok = a_s / k <= ab <= a_s
        ctx.obligation('C16.e', construct, ok, dict(det, a_ber=str(ab), a_ser=str(a_s), bits=k))
        if not ok:
            ctx.violation('C16.e', f.qualname, '%s overrides the bit-error curve with %s while its symbol-error curve is %s: coefficient %s is '
                          'outside [%s/%d, %s], so BER <= SER <= %d x BER fails for every SNR' % (c.name, ber.pretty(), ser.pretty(), ab, a_s, k, a_s, k),
                          f.path, f.lineno, operand='ber:' + c.name)


def synthetic():
    a = T.parse_spec('1 - (1 - B) * L')
    b = T.parse_spec('1 - (1 - B) ** L')
    c = T.parse_spec('1 - np.power(1 - B, L)')
    return [('per-product-instead-of-power-detected', a != b), ('np.power-accepted', b == c)]


MUTANTS = [
    Mutant('qpsk-own-ber-with-bpsk-argument', FUND, 'QPSK.__repr__',
           [('replace', "return 'QPSK object'", "return 'QPSK object'\n\ndef calcTheoreticalBER(self, SNR):\n    return qfunc(np.sqrt(2 * dB2Linear(SNR)))")],
           r'C16\.e:QPSK\.calcTheoreticalBER'),
    Mutant('benign-qpsk-own-exact-ber', FUND, 'QPSK.__repr__',
           [('replace', "return 'QPSK object'", "return 'QPSK object'\n\ndef calcTheoreticalBER(self, SNR):\n    return qfunc(np.sqrt(dB2Linear(SNR)))")],
           None, benign=True),
    Mutant('per-star-instead-of-power', FUND, 'Modulator.calcTheoreticalPER',
           [('replace', '(1 - BER) ** packet_length', '(1 - BER) * packet_length')], r'C16\.a:Modulator\.calcTheoreticalPER'),
    Mutant('per-uses-SER', FUND, 'Modulator.calcTheoreticalPER',
           [('replace', 'self.calcTheoreticalBER(SNR)', 'self.calcTheoreticalSER(SNR)')], r'C16\.a:Modulator\.calcTheoreticalPER'),
    Mutant('se-one-plus-per', FUND, 'Modulator.calcTheoreticalSpectralEfficiency',
           [('replace', '1 - self.calcTheoreticalPER(SNR, packet_length)', '1 + self.calcTheoreticalPER(SNR, packet_length)')],
           r'C16\.a:Modulator\.calcTheoreticalSpectralEfficiency'),
    Mutant('psk-ber-divides-by-M', FUND, 'PSK.calcTheoreticalBER',
           [('replace', 'k = level2bits(self._M)', 'k = self._M')], r'C16\.a:PSK\.calcTheoreticalBER'),
    Mutant('bpsk-ser-drops-dB2Linear', FUND, 'BPSK.calcTheoreticalSER',
           [('replace', 'snr = dB2Linear(SNR)', 'snr = SNR')], r'C16\.[ab]:BPSK'),
    Mutant('qam-ser-linear', FUND, 'QAM.calcTheoreticalSER',
           [('replace', '1 - (1 - Psc) ** 2', '2 * Psc')], r'C16\.a:QAM\.calcTheoreticalSER'),
    Mutant('qam-constellation-rescaled', FUND, 'QAM._createConstellation',
           [('replace', '(M - 1) * 2.0 / 3.0', '(M - 1) / 3.0')], r'C16\.b:QAM'),
    Mutant('qam-formula-rescaled', FUND, 'QAM._calcTheoreticalSingleCarrierErrorRate',
           [('replace', 'snr * 3.0 / (self._M - 1.0)', 'snr * 6.0 / (self._M - 1.0)')], r'C16\.b:QAM'),
    Mutant('psk-radius-two', FUND, 'PSK._createConstellation',
           [('replace', 'realPart = np.cos(phases)', 'realPart = 2 * np.cos(phases)'),
            ('replace', 'imagPart = np.sin(phases)', 'imagPart = 2 * np.sin(phases)')], r'C16\.b:PSK'),
    Mutant('qfunc-wrong-scale', MISC, 'qfunc', [('replace', 'x / math.sqrt(2)', 'x / 2')], r'C16\.a:qfunc'),
    Mutant('per-piecewise-approximation', FUND, 'Modulator.calcTheoreticalPER',
           [('regex', r'(    PER = 1 - \(1 - BER\) \*\* packet_length\n)', r'\1    PER = np.where(BER < 1e-08, packet_length * BER, PER)\n')],
           r'C16\.a:Modulator\.calcTheoreticalPER'),
    Mutant('identity-keyed-memo', FUND, 'QAM._calcTheoreticalSingleCarrierErrorRate',
           [('regex', r'(    return Psc)', r'    self._last_Psc = Psc\n\1')], r'C16\.c:QAM\._calcTheoreticalSingleCarrierErrorRate'),
    Mutant('benign-np.power', FUND, 'Modulator.calcTheoreticalPER',
           [('replace', '(1 - BER) ** packet_length', 'np.power(1 - BER, packet_length)')], None, benign=True),
    Mutant('benign-temp-for-one-minus-ber', FUND, 'Modulator.calcTheoreticalPER',
           [('replace', 'PER = 1 - (1 - BER) ** packet_length', 'q = 1 - BER\n    PER = 1 - q ** packet_length')], None, benign=True),
    Mutant('benign-qam-energy-rewritten', FUND, 'QAM._createConstellation',
           [('replace', '(M - 1) * 2.0 / 3.0', '2 * (M - 1) / 3')], None, benign=True),
]

ENGINES = ['model', 'terms']
TECHNIQUE = 'static analysis: term normal forms (symbolic rewriting of extracted formulas against specification terms)'
