"""C05 - the Monte Carlo runner runs exactly the requested repetitions per variation."""
from __future__ import annotations

import ast
from typing import List, Optional

from ..model import FuncInfo, is_self_attr, norm, walk_no_nested
from ..paths import conjuncts, implied_compares
from ..report import Ctx
from ..runner_rules import RUNNER, analyse_runner, definite
from ..selftest import Mutant

PAR = 'pyphysim/simulations/parameters.py'

EXPLANATION = (
    'Decides the ordering/pairing clauses of C05 on ALL paths (exception edges included) of the repetition loop, '
    'not the merged values. C05.a: abstract counter D = (#repetitions contained in the results object) - '
    '(repetition counter) is 0 at the loop head, every back edge, the loop exit, every save call and every return, '
    'with the SkipThisOne edge leaving between the user iteration and the merge (a skipped repetition is never '
    'counted). C05.b: the loop test implies counter < rep_max and consults _keep_going(params, merged results, '
    'counter). C05.c: every call site that reaches the user iteration is protected by a SkipThisOne handler. '
    'C05.d: per variation exactly one simulate call, one runned_reps.append, one results.append_all_results, in that '
    'order, iterating directly over get_unpacked_params_list(). C05.e: enumerator and indexer take the axis order '
    'from the same sorted provider (C order), and no other iteration over the unpacked-parameter set leaks set '
    'order into an order-sensitive sink. Not decided: user predicates, parallel execution, merged values (C06).'
    ' General rules also applied here (see DESIGN 10.5): falsy-zero (Optional numeric parameters tested with `is None`, never by truthiness). C05.h: index sets returned by get_pack_indexes are consumed as sets, never through a slice between their end points.')


def check(ctx: Ctx) -> None:
    M = ctx.model
    ctx.assume('only calls reaching SimulationRunner._run_simulation raise SkipThisOne; save/progress callbacks do '
               'not raise; the loaded partial results contain exactly `current_rep` repetitions (C07.b)')
    fn, it = analyse_runner(M)
    q = 'SimulationRunner._simulate_for_current_params_common'
    # ------------------------------------------------------------------ C05.a
    ctx.rule('C05.a', 'increment-iff-merged: results-count minus counter is 0 at loop head/back edge/exit/saves/returns', floor=4)
    ctx.instance('C05.a', q + ':loop(%s,%s)' % (it.R, it.N))
    if it.n_merge == 0 or it.n_inc == 0:
        ctx.error('C05.a: merge (%d) / increment (%d) not found in the loop' % (it.n_merge, it.n_inc))
    for (st, node) in it.exits:
        it._chk('return', node, st)
        ctx.instance('C05.a', q + ':return@%s' % type(node).__name__)
    for c, st, sfn, ds in it.save_sites:
        ctx.instance('C05.a', q + ':' + c.func.attr)
        args = [norm(a) for a in c.args]
        bad = [d for d in ds if definite(d)]
        unk = [d for d in ds if d == 'unknown']
        if unk and not bad:
            ctx.error('C05.a: the analysis lost track of the counter/results given to %s(%s) in %s (cannot tell)'
                      % (c.func.attr, ', '.join(args), sfn.qualname))
        ok = not bad and len(args) >= 3
        ctx.obligation('C05.a', q + ':save-args:' + c.func.attr, ok, {'args': args, 'in': sfn.qualname, 'differences': [str(d) for d in ds]})
        if not ok:
            ctx.violation('C05.a', q, 'save call %s(%s) in %s is not given (counter, params, merged results) holding the same '
                          'number of repetitions (results - counter in %s)' % (c.func.attr, ', '.join(args), sfn.qualname,
                                                                             sorted({str(d) for d in ds})),
                          sfn.path, c.lineno, operand='save-args:' + c.func.attr)
    # returned counter/results
    for (st, node) in it.exits:
        if isinstance(node, ast.Return) and isinstance(node.value, ast.Tuple):
            elts = [norm(e) for e in node.value.elts]
            ok = elts[:2] == [it.N, it.R]
            ctx.obligation('C05.a', q + ':returned', ok, {'returned': elts})
            if not ok:
                ctx.violation('C05.a', q, 'returns %s, not (counter %s, merged results %s, ...)' % (elts, it.N, it.R),
                              fn.path, node.lineno, operand='returned')
    seen = set()
    lost = [p for p in it.problems if not definite(p[4])]
    for where, msg, node, el, d in it.problems:
        if not definite(d):
            continue
        k = where
        if k in seen:
            continue
        seen.add(k)
        ctx.violation('C05.a', q, 'counter and merged results disagree at %s: %s' % (where, msg), fn.path,
                      getattr(node, 'lineno', fn.lineno), witness={'element': repr(el[:2])}, operand=where.split(':')[0])
    if lost and not seen:
        ctx.error('C05.a: the analysis lost track of the counter/results at %s (%s): cannot tell'
                  % (sorted({p[0] for p in lost}), lost[0][1]))
    for w in ('loop-head', 'back-edge', 'loop-exit', 'return'):
        ctx.obligation('C05.a', q + ':' + w, not any(p[0] == w for p in it.problems),
                       {'check': w, 'merge_sites': it.n_merge, 'increment_sites': it.n_inc,
                        'helpers_analysed_by_summary': sorted(it.analysed - {fn.qualname})})
    # ------------------------------------------------------------------ C05.b
    ctx.rule('C05.b', 'loop test implies counter < self.rep_max and asks _keep_going(params, merged results, counter)', floor=1)
    ctx.instance('C05.b', q + ':while')
    imp = implied_compares(it.loop.test)
    okb = (it.N, '<', '%s.rep_max' % it.sn) in imp
    ctx.obligation('C05.b', q + ':bound', okb, {'implied': imp})
    if not okb:
        ctx.violation('C05.b', q, 'the loop test `%s` does not imply %s < %s.rep_max: the loop can run past the limit'
                      % (norm(it.loop.test), it.N, it.sn), fn.path, it.loop.lineno, operand='bound')
    kg = [c for c in conjuncts(it.loop.test) if isinstance(c, ast.Call) and is_self_attr(c.func, it.sn) == '_keep_going']
    okk = len(kg) == 1 and [norm(a) for a in kg[0].args][1:] == [it.R, it.N]
    ctx.obligation('C05.b', q + ':keep_going', okk, {'conjuncts': [norm(c) for c in conjuncts(it.loop.test)]})
    if not okk:
        ctx.violation('C05.b', q, 'the loop test does not consult self._keep_going(params, %s, %s)' % (it.R, it.N),
                      fn.path, it.loop.lineno, operand='keep_going')
    # ------------------------------------------------------------------ C05.c
    ctx.rule('C05.c', 'every call site reaching the user iteration tolerates SkipThisOne', floor=2)
    # a site = a call, in the routine or in a helper analysed by summary, at which SkipThisOne may arrive; it is
    # tolerated if a handler of the function containing it catches it, or every site of the callers up the chain does
    # (an escape from the per-variation routine itself is the violation)
    escaped = {getattr(n, 'lineno', 0) for (_, exc, n) in it.exc_exits if exc == 'SkipThisOne'}
    for (fq, ln), (sfn, node, handled) in sorted(it.skip_sites.items()):
        if sfn is fn:
            role = 'inside-loop' if it.loop.lineno <= ln <= it.loop.end_lineno else 'before-loop'
        elif handled:
            role = 'helper:' + sfn.name.lstrip('_')
        else:
            continue            # passes through to the caller's site, which is listed itself
        construct = '%s:run-site[%s]' % (q, role)
        ctx.instance('C05.c', construct)
        ok = not (sfn is fn and ln in escaped)
        ctx.obligation('C05.c', construct, ok, {'call': norm(node)[:80], 'role': role, 'function': sfn.qualname})
        if not ok:
            ctx.violation('C05.c', q, 'the %s call of the user iteration `%s` is not inside a try with a SkipThisOne '
                          'handler: a skipped repetition there aborts simulate()' % (role, norm(node)[:70]),
                          fn.path, ln, operand='run-site:' + role)
    from ..dsf import auto_memo_check
    ctx.rule('C05.g', 'no auto-discovered lazily filled cache of the classes in the anchored modules can be stale at the exit of a public method (dependencies = what the fill expression reads, incl. mutating calls on held sub-objects)', floor=5)
    auto_memo_check(ctx, 'C05.g', [RUNNER, PAR])
    _check_variations(ctx)
    _check_axis_order(ctx)
    _check_falsy_zero(ctx)
    # ------------------------------------------------------------------ C05.m
    from ..idioms import check_range_guard
    ctx.rule('C05.m', 'simulate(param_variation_index=i) runs variation i for exactly 0 <= i < number of variations (index 0 included): the '
                      'guard is decided for every order position of the index', floor=1)
    sv1 = M.func(RUNNER, 'SimulationRunner._simulate_serially_single_param_variation')
    iv = [p_ for p_ in sv1.params if p_ != 'self'][0]
    gi = [n for n in walk_no_nested(sv1.node) if isinstance(n, ast.If) and any(norm(x) == iv for x in ast.walk(n.test))
          and not (n.body and isinstance(n.body[-1], ast.Raise))]
    if len(gi) != 1:
        ctx.error('C05.m: %s has %d guards on `%s` (cannot tell)' % (sv1.qualname, len(gi), iv))
    # the upper landmark is whatever the index is compared with besides 0: len(<list of variations>) or a local holding it
    ups = sorted({norm(x) for c_ in ast.walk(gi[0].test) if isinstance(c_, ast.Compare) for x in [c_.left] + list(c_.comparators)
                  if norm(x) not in (iv, '0')})
    if len(ups) == 1 and isinstance(gi[0].test, ast.Call):
        pass
    if len(ups) != 1:
        ctx.error('C05.m: the guard `%s` compares the index with %s (one upper bound expected; cannot tell)' % (norm(gi[0].test)[:60], ups))
    N_ = ups[0]
    check_range_guard(ctx, 'C05.m', sv1, iv, ['0', N_],
                      {'below 0': False, 'at 0': True, 'between 0 and %s' % N_: True, 'at %s' % N_: False, 'above %s' % N_: False},
                      'accept', 'the variations are numbered 0 .. N-1, all of them and only them can be simulated alone')
    _check_accumulators_reset(ctx)
    from ..idioms import check_no_mutation_while_iterating, check_restores_protected
    check_no_mutation_while_iterating(ctx, 'C05.k', [RUNNER, PAR, 'pyphysim/simulations/results.py'], floor=12)
    check_restores_protected(ctx, 'C05.l', [RUNNER], floor=20)
    from ..idioms import check_index_sets_not_spans
    check_index_sets_not_spans(ctx, 'C05.h', ['pyphysim/simulations/results.py', PAR, RUNNER], floor=2)
    from ..idioms import check_none_tests
    check_none_tests(ctx, 'C05.i', [RUNNER, PAR, 'pyphysim/simulations/results.py'], floor=10)


from ..idioms import falsy_zero_tests  # noqa: E402


def _check_accumulators_reset(ctx: Ctx) -> None:
    """C05.j: per-call accumulators of the runner are reset by every simulate() call."""
    from ..dsf import must_store_on_all_paths
    M = ctx.model
    ctx.rule('C05.j', 'every list attribute the runner APPENDS to while simulating is assigned afresh on every normal path of simulate() (a second '
                      'simulate() on the same runner must not add to the counts of the first)', floor=1)
    cls = M.cls('SimulationRunner')
    appended = set()
    for fn in cls.methods.values():
        sn = fn.self_name
        for n in walk_no_nested(fn.node):
            if isinstance(n, ast.Call) and isinstance(n.func, ast.Attribute) and n.func.attr in ('append', 'extend') \
                    and is_self_attr(n.func.value, sn or 'self'):
                appended.add(is_self_attr(n.func.value, sn or 'self'))
    if not appended:
        ctx.error('C05.j: the runner no longer appends to any attribute while simulating (cannot tell)')
    for a in sorted(appended):
        construct = 'SimulationRunner.simulate:' + a
        ctx.instance('C05.j', construct)
        ok, f = must_store_on_all_paths(M, cls, 'simulate', a)
        ctx.obligation('C05.j', construct, ok, {'attribute': a})
        if not ok:
            ctx.violation('C05.j', 'SimulationRunner.simulate', 'a normal path of simulate() never re-assigns `self.%s`, to which the run appends: a second '
                          'simulate() on the same runner keeps adding to the list of the first (runned_reps then has 2N, 3N ... entries)' % a,
                          f.path, f.lineno, operand='reset:' + a)


def _check_falsy_zero(ctx: Ctx) -> None:
    M = ctx.model
    ctx.rule('C05.f', 'Optional index/count parameters of the runner API, and values looked up with dict.get(), are tested with `is None` / membership, never by truthiness (0 is a legal value)', floor=3)
    for path, cname in ((RUNNER, 'SimulationRunner'), (PAR, 'SimulationParameters')):
        cls = M.cls(cname)
        for fn in cls.methods.values():
            a = fn.node.args
            anns = [norm(p.annotation) for p in a.args + a.kwonlyargs if p.annotation is not None]
            has_lookup = any(isinstance(n, ast.Call) and isinstance(n.func, ast.Attribute) and n.func.attr == 'get' for n in ast.walk(fn.node))
            if not any('Optional[' in x and any(t in x for t in ('int', 'float', 'str')) for x in anns) and not has_lookup:
                continue
            construct = fn.qualname
            ctx.instance('C05.f', construct)
            hits = list(falsy_zero_tests(fn, lookups=True))
            ctx.obligation('C05.f', construct, not hits, {'optional_params_tested_by_truthiness': [h[1] for h in hits]})
            for node, name in hits:
                ctx.violation('C05.f', construct, 'parameter `%s` (Optional numeric/str) is tested by truthiness in `%s`: the legal value 0 '
                              'is treated like None (e.g. simulate(0) runs every variation instead of variation 0)'
                              % (name, norm(node.test if hasattr(node, 'test') else node)[:60]), fn.path, node.lineno, operand=name)


def _check_variations(ctx: Ctx) -> None:
    M = ctx.model
    ctx.rule('C05.d', 'one simulate, one runned_reps.append, one append_all_results per variation, in order', floor=1)
    fn = M.func(RUNNER, 'SimulationRunner._simulate_serially_all_param_variation')
    sn = fn.self_name or 'self'
    q = 'SimulationRunner._simulate_serially_all_param_variation'
    loops = [n for n in walk_no_nested(fn.node) if isinstance(n, ast.For)]
    loops = [l for l in loops if any(isinstance(c, ast.Call) and isinstance(c.func, ast.Attribute)
                                     and c.func.attr == '_simulate_for_current_params_serial' for c in ast.walk(l))]
    if len(loops) != 1:
        ctx.error('C05.d: variation loop not found')
    loop = loops[0]
    ctx.instance('C05.d', q + ':for')
    ok_iter = norm(loop.iter) == '%s.params.get_unpacked_params_list()' % sn
    ctx.obligation('C05.d', q + ':iter', ok_iter, {'iter': norm(loop.iter)})
    if not ok_iter:
        ctx.violation('C05.d', q, 'variation loop iterates over `%s`, not directly over params.get_unpacked_params_list()'
                      % norm(loop.iter), fn.path, loop.lineno, operand='iter')
    # the per-variation counts are kept in the attribute that the public `runned_reps` property hands out
    rp = M.lookup_property(M.cls('SimulationRunner'), 'runned_reps')
    reps_attr = None
    if rp is not None and rp[0] is not None:
        rr = [n.value for n in walk_no_nested(rp[0].node) if isinstance(n, ast.Return) and n.value is not None]
        if len(rr) == 1:
            reps_attr = is_self_attr(rr[0], rp[0].self_name or 'self')
    if reps_attr is None:
        ctx.error('C05.d: the attribute behind the runned_reps property is not recognised (cannot tell)')
    # straight-line body: sequence of the three events
    events = []
    straight = True
    for s in loop.body:
        if isinstance(s, (ast.If, ast.For, ast.While, ast.Try)):
            if any(isinstance(c, ast.Call) and isinstance(c.func, ast.Attribute) and
                   c.func.attr in ('_simulate_for_current_params_serial', 'append', 'append_all_results')
                   for c in ast.walk(s)):
                straight = False
        for c in [n for n in ast.walk(s) if isinstance(n, ast.Call) and isinstance(n.func, ast.Attribute)]:
            if c.func.attr == '_simulate_for_current_params_serial':
                events.append(('simulate', c))
            elif c.func.attr == 'append' and is_self_attr(c.func.value, sn) == reps_attr:
                events.append(('count', c))
            elif c.func.attr == 'append_all_results' and norm(c.func.value) == '%s.results' % sn:
                events.append(('results', c))
    kinds = [e[0] for e in sorted(events, key=lambda e: (e[1].lineno, e[1].col_offset))]
    ok = straight and kinds == ['simulate', 'count', 'results']
    ctx.obligation('C05.d', q + ':events', ok, {'events_in_order': kinds, 'unconditional': straight})
    if not ok:
        ctx.violation('C05.d', q, 'per variation the events are %s (unconditional=%s); expected exactly '
                      '[simulate, count, results]' % (kinds, straight), fn.path, loop.lineno, operand='events')
    # what is appended is what the simulate call returned
    tgt = None
    for s in loop.body:
        if isinstance(s, ast.Assign) and isinstance(s.value, ast.Call) and isinstance(s.value.func, ast.Attribute) \
                and s.value.func.attr == '_simulate_for_current_params_serial' and isinstance(s.targets[0], ast.Tuple):
            tgt = [norm(e) for e in s.targets[0].elts]
            arg_ok = [norm(a) for a in s.value.args] == [norm(loop.target)]
            ctx.obligation('C05.d', q + ':arg', arg_ok, {'args': [norm(a) for a in s.value.args]})
            if not arg_ok:
                ctx.violation('C05.d', q, 'the simulate call is not given the loop variable', fn.path, s.lineno, operand='arg')
    if tgt is None:
        ctx.error('C05.d: result of the simulate call is not unpacked into (count, results, _)')
    cnt = [norm(e[1].args[0]) for e in events if e[0] == 'count' and e[1].args]
    res = [norm(e[1].args[0]) for e in events if e[0] == 'results' and e[1].args]
    ok = cnt == [tgt[0]] and res == [tgt[1]]
    ctx.obligation('C05.d', q + ':flow', ok, {'returned': tgt, 'count_appended': cnt, 'results_appended': res})
    if not ok:
        ctx.violation('C05.d', q, 'appended count/results %s/%s are not the values returned by the simulate call %s'
                      % (cnt, res, tgt[:2]), fn.path, loop.lineno, operand='flow')


ORDER_INSENSITIVE = {'set', 'frozenset', 'len', 'sorted', 'sum', 'any', 'all', 'min', 'max'}


def _check_axis_order(ctx: Ctx) -> None:
    M = ctx.model
    ctx.rule('C05.e', 'enumerator and indexer take the axis order from the same sorted provider; set order never leaks',
             floor=4)
    cls = M.cls('SimulationParameters')
    SET = '_unpacked_parameters_set'
    prov = M.func(PAR, 'SimulationParameters.unpacked_parameters@getter')
    rets = [n for n in walk_no_nested(prov.node) if isinstance(n, ast.Return)]
    okp = len(rets) == 1 and norm(rets[0].value) == 'sorted(self.%s)' % SET
    ctx.instance('C05.e', 'SimulationParameters.unpacked_parameters')
    ctx.obligation('C05.e', 'provider', okp, {'returns': [norm(r.value) for r in rets]})
    if not okp:
        ctx.violation('C05.e', 'SimulationParameters.unpacked_parameters', 'the axis-order provider no longer returns '
                      'sorted(self.%s): `%s`' % (SET, [norm(r.value) for r in rets]), prov.path, prov.lineno, operand='provider')
    sorted_forms = {'sorted(self.%s)' % SET, 'self.unpacked_parameters'}
    # enumerator
    en = M.func(PAR, 'SimulationParameters.get_unpacked_params_list')
    ctx.instance('C05.e', 'SimulationParameters.get_unpacked_params_list')
    from ..astutil import single_locals
    defs = single_locals(en)

    def dict_fill_source(d: str) -> Optional[ast.AST]:
        """The iterable S of the only loop `for i in S: d[i] = ...` that fills the local mapping d (else None)."""
        ctor = [n for n in walk_no_nested(en.node) if isinstance(n, (ast.Assign, ast.AnnAssign))
                and norm(n.targets[0] if isinstance(n, ast.Assign) else n.target) == d]
        if len(ctor) != 1 or norm(ctor[0].value) not in ('OrderedDict()', 'dict()', '{}', 'collections.OrderedDict()'):
            return None
        fills = [(f, st) for f in walk_no_nested(en.node) if isinstance(f, ast.For) for st in ast.walk(f)
                 if isinstance(st, ast.Assign) and isinstance(st.targets[0], ast.Subscript) and norm(st.targets[0].value) == d]
        if len(fills) != 1 or norm(fills[0][1].targets[0].slice) != norm(fills[0][0].target):
            return None
        return fills[0][0].iter

    def order_of(e: ast.AST, depth: int = 0) -> Optional[str]:
        """'sorted' / 'set' / None (cannot tell): where the ORDER of the sequence e comes from."""
        if depth > 8:
            return None
        if isinstance(e, ast.Starred):
            return order_of(e.value, depth + 1)
        if norm(e) in sorted_forms:
            return 'sorted'
        if is_self_attr(e, en.self_name or 'self') == SET:
            return 'set'
        if isinstance(e, ast.Name):
            if e.id in defs:
                src = dict_fill_source(e.id)
                return order_of(src, depth + 1) if src is not None else order_of(defs[e.id], depth + 1)
            return None
        if isinstance(e, ast.Call):
            f = norm(e.func)
            if f in ('list', 'tuple', 'iter', 'enumerate') and len(e.args) == 1:
                return order_of(e.args[0], depth + 1)
            if f == 'sorted':
                from_set = bool(e.args) and any(is_self_attr(a, en.self_name or 'self') == SET or order_of(a, depth + 1)
                                                for a in ast.walk(e.args[0]))
                if not from_set:
                    return None
                # the indexer uses plain ascending name order: a key= / reverse= makes it a different order
                return 'sorted' if len(e.args) == 1 and not e.keywords else 'other'
            if f == 'reversed' and len(e.args) == 1:
                return 'other' if order_of(e.args[0], depth + 1) else None
            if f == 'set':
                return 'set'
            if f == 'map' and len(e.args) == 2:
                return order_of(e.args[1], depth + 1)
            if f == 'zip' and len(e.args) >= 1:
                # pairs (key, iterable) zipped from sequences that all follow the same order
                os_ = {order_of(a, depth + 1) for a in e.args}
                return os_.pop() if len(os_) == 1 else None
            if f in ('OrderedDict', 'dict', 'collections.OrderedDict') and len(e.args) == 1 and not e.keywords:
                return order_of(e.args[0], depth + 1)       # a mapping filled from an ordered sequence of pairs keeps that order
            if isinstance(e.func, ast.Attribute) and e.func.attr in ('keys', 'values', 'items') and not e.args:
                return order_of(e.func.value, depth + 1)
            return None
        if isinstance(e, (ast.ListComp, ast.GeneratorExp)) and len(e.generators) == 1:
            return order_of(e.generators[0].iter, depth + 1)
        return None

    prod = [n for n in walk_no_nested(en.node) if isinstance(n, ast.Call) and norm(n.func) in ('itertools.product', 'product')]
    detail = {'product_calls': len(prod)}
    if len(prod) != 1 or len(prod[0].args) != 1 or not isinstance(prod[0].args[0], ast.Starred):
        ctx.error('C05.e: the enumerator is not one itertools.product(*iterables) call (cannot tell)')
    axes_order = order_of(prod[0].args[0])
    detail['product_arg'] = norm(prod[0].args[0])[:80]
    detail['axes_order_from'] = axes_order
    # the sequence that labels the components of one combination
    def is_prod(e: ast.AST) -> bool:
        return e is prod[0] or (isinstance(e, ast.Name) and defs.get(e.id) is prod[0])
    comb_scopes: List = []           # (name of one combination, the node in which it is in scope)
    def comb_name(target: ast.AST, it: ast.AST) -> Optional[str]:
        """name bound to one combination by `for <target> in <it>` (also through enumerate(product))"""
        if isinstance(target, ast.Name) and is_prod(it):
            return target.id
        if isinstance(target, ast.Tuple) and len(target.elts) == 2 and isinstance(target.elts[1], ast.Name) and isinstance(it, ast.Call) \
                and norm(it.func) == 'enumerate' and it.args and is_prod(it.args[0]):
            return target.elts[1].id
        return None
    for f in walk_no_nested(en.node):
        if isinstance(f, ast.For) and comb_name(f.target, f.iter):
            comb_scopes.append((comb_name(f.target, f.iter), f))
        elif isinstance(f, (ast.ListComp, ast.GeneratorExp, ast.SetComp, ast.DictComp)):
            for g in f.generators:
                if comb_name(g.target, g.iter):
                    comb_scopes.append((comb_name(g.target, g.iter), f))
    labels: List[ast.AST] = []
    if len(comb_scopes) == 1:
        comb, scope = comb_scopes[0]
        for n in ast.walk(scope):
            if isinstance(n, ast.Call) and norm(n.func) == 'zip' and len(n.args) == 2 and norm(n.args[1]) == comb:
                labels.append(n.args[0])
            if isinstance(n, ast.Assign) and isinstance(n.targets[0], ast.Subscript) and isinstance(n.value, ast.Subscript) \
                    and norm(n.value.value) == comb and isinstance(n.targets[0].slice, ast.Subscript) \
                    and norm(n.targets[0].slice.slice) == norm(n.value.slice):
                labels.append(n.targets[0].slice.value)
    if len(labels) != 1:
        ctx.error('C05.e: how the enumerator labels the components of a combination is not recognised (cannot tell)')
    label_order = order_of(labels[0])
    detail['labels'] = norm(labels[0])
    detail['labels_order_from'] = label_order
    if (axes_order is None or label_order is None) and not ({'set', 'other'} & {axes_order, label_order}):
        ctx.error('C05.e: cannot trace where the enumerator takes its axis order from: %s' % detail)
    oke = axes_order == 'sorted' and label_order == 'sorted'
    ctx.obligation('C05.e', 'enumerator', oke, detail)
    if not oke:
        ctx.violation('C05.e', 'SimulationParameters.get_unpacked_params_list', 'the enumerator is not itertools.product '
                      'over the per-parameter iterators taken in sorted-name order (%s)' % detail, en.path, en.lineno,
                      operand='enumerator')
    # indexer
    ix = M.func(PAR, 'SimulationParameters.get_pack_indexes')
    ctx.instance('C05.e', 'SimulationParameters.get_pack_indexes')
    its = [n for n in ast.walk(ix.node) if isinstance(n, (ast.For, ast.comprehension))]
    axis_iters = [norm(n.iter) for n in its]
    oki = axis_iters.count('self.unpacked_parameters') + axis_iters.count('sorted(self.%s)' % SET) >= 2 \
        and all(a in sorted_forms or not a.startswith('self.') for a in axis_iters)
    # reshape is C order: `aux.shape = dimensions` or reshape(..) without order='F'
    bad_order = any(isinstance(n, ast.keyword) and n.arg == 'order' and not (isinstance(n.value, ast.Constant) and n.value.value == 'C')
                    for n in ast.walk(ix.node))
    oki = oki and not bad_order
    ctx.obligation('C05.e', 'indexer', oki, {'iterations': axis_iters, 'non_C_order': bad_order})
    if not oki:
        ctx.violation('C05.e', 'SimulationParameters.get_pack_indexes', 'the indexer does not take both the index list and '
                      'the dimensions from the sorted axis-order provider in C order (iterations: %s)' % axis_iters,
                      ix.path, ix.lineno, operand='indexer')
    # set order must not leak: every other iteration over the raw set feeds an order-insensitive sink
    for fn in list(cls.methods.values()) + list(cls.getters.values()):
        sn = fn.self_name
        if sn is None:
            continue
        for n in ast.walk(fn.node):
            it_expr = None
            if isinstance(n, (ast.For, ast.comprehension)):
                it_expr = n.iter
            elif isinstance(n, ast.Call) and isinstance(n.func, ast.Name) and n.func.id in ('list', 'tuple', 'enumerate', 'iter') \
                    and n.args:
                it_expr = n.args[0]
            if it_expr is None:
                continue
            raw = [a for a in ast.walk(it_expr) if is_self_attr(a, sn) == SET]
            if not raw:
                continue
            construct = '%s:%s' % (fn.qualname, norm(it_expr)[:50])
            ctx.instance('C05.e', construct)
            ok = _order_insensitive(fn, n, it_expr, sn)
            ctx.obligation('C05.e', construct, ok, {'iterated': norm(it_expr), 'in': fn.qualname})
            if not ok:
                ctx.violation('C05.e', fn.qualname, 'iterates the unordered set `%s` into an order-sensitive sink: the '
                              'variation order / index arithmetic depends on hash order' % norm(it_expr)[:60],
                              fn.path, getattr(n, 'lineno', fn.lineno), operand='set-order')


def _order_insensitive(fn: FuncInfo, node: ast.AST, it_expr: ast.AST, sn: str) -> bool:
    # sorted(...) directly
    if isinstance(it_expr, ast.Call) and isinstance(it_expr.func, ast.Name) and it_expr.func.id in ('sorted',):
        return True
    # generator feeding a commutative reduce / len / set construction
    parent = {}
    for p in ast.walk(fn.node):
        for c in ast.iter_child_nodes(p):
            parent[id(c)] = p
    cur = node
    for _ in range(6):
        p = parent.get(id(cur))
        if p is None:
            break
        if isinstance(p, ast.Call):
            f = norm(p.func)
            if f.split('.')[-1] in ORDER_INSENSITIVE:
                return True
            if f in ('functools.reduce', 'reduce') and p.args and norm(p.args[0]) in ('operator.mul', 'operator.add', 'mul', 'add'):
                return True
        if isinstance(p, ast.Assign) and isinstance(cur, (ast.GeneratorExp, ast.ListComp)):
            # generator bound to a local: follow the local to its single consumer
            tname = p.targets[0].id if isinstance(p.targets[0], ast.Name) else None
            if tname:
                for c in ast.walk(fn.node):
                    if isinstance(c, ast.Call) and any(isinstance(a, ast.Name) and a.id == tname for a in c.args):
                        f = norm(c.func)
                        if f.split('.')[-1] in ORDER_INSENSITIVE:
                            return True
                        if f in ('functools.reduce', 'reduce') and norm(c.args[0]) in ('operator.mul', 'operator.add'):
                            return True
            return False
        if isinstance(p, (ast.SetComp, ast.Set)):
            return True
        cur = p
    # list(set_expr) used only for membership tests
    if isinstance(node, ast.Call) and isinstance(node.func, ast.Name) and node.func.id == 'list':
        p = parent.get(id(node))
        if isinstance(p, ast.Assign) and isinstance(p.targets[0], ast.Name):
            nm = p.targets[0].id
            uses = [u for u in ast.walk(fn.node) if isinstance(u, ast.Name) and u.id == nm and isinstance(u.ctx, ast.Load)]
            ok = True
            for u in uses:
                pu = parent.get(id(u))
                if not (isinstance(pu, ast.Compare) and any(isinstance(o, (ast.In, ast.NotIn)) for o in pu.ops)
                        and u in pu.comparators):
                    ok = False
            return ok and bool(uses)
    return False


_TRY_BODY = r'current_sim_results\.merge_all_results\(self\.__run_simulation_and_track_elapsed_time\(current_params\)\)'

MUTANTS = [
    Mutant('matching-results-taken-as-a-span', 'pyphysim/simulations/results.py', 'SimulationResults.get_result_values_list',
           [('regex', r'out = \[v\.get_result\(\) for [^\n]*? if i in indexes\]', 'out = [v.get_result() for v in self[result_name][indexes[0]:indexes[-1] + 1]]')],
           r'C05\.h:SimulationResults\.get_result_values_list:span:indexes'),
    Mutant('benign-matching-results-by-member', 'pyphysim/simulations/results.py', 'SimulationResults.get_result_values_list',
           [('regex', r'out = \[v\.get_result\(\) for [^\n]*? if i in indexes\]', 'out = [self[result_name][i].get_result() for i in indexes]')],
           None, benign=True),
    Mutant('increment-after-try', RUNNER, 'SimulationRunner._simulate_for_current_params_common',
           [('regex', r'(\n\s*)current_rep \+= 1\n', r'\n'),
            ('regex', r"(\n(\s*)self\._simulation_results_saver\.save_partial_results_maybe)", r'\n\2current_rep += 1\1')],
           r'C05\.a:.*:(back-edge|loop-head|save|loop-exit|return)'),
    Mutant('increment-inside-except', RUNNER, 'SimulationRunner._simulate_for_current_params_common',
           [('regex', r"(except SkipThisOne:\n(\s*))(current_sim_results\['num_skipped_reps'\])", r'\1current_rep += 1\n\2\3')],
           r'C05\.a:.*:(back-edge|loop-head|save|loop-exit|return)'),
    Mutant('le-in-loop-test', RUNNER, 'SimulationRunner._simulate_for_current_params_common',
           [('replace', 'current_rep < self.rep_max', 'current_rep <= self.rep_max')], r'C05\.b:.*:bound'),
    Mutant('keep_going-gets-stale-counter', RUNNER, 'SimulationRunner._simulate_for_current_params_common',
           [('replace', 'self._keep_going(current_params, current_sim_results, current_rep)',
             'self._keep_going(current_params, current_sim_results, current_rep - 1)')], r'C05\.b:.*:keep_going'),
    Mutant('first-call-outside-try', RUNNER, 'SimulationRunner._simulate_for_current_params_common',
           [('regex', r'if current_sim_results is None:\n.*?\n(\s*)else:\n',
             'if current_sim_results is None:\n        current_sim_results = self.__run_simulation_and_track_elapsed_time(current_params)\n        current_rep = 1\n    else:\n')],
           r'C05\.c:.*run-site:before-loop'),
    Mutant('merge-twice', RUNNER, 'SimulationRunner._simulate_for_current_params_common',
           [('regex', r'(\n(\s*)current_rep \+= 1\n)', r'\n\2current_sim_results.merge_all_results(current_sim_results)\1')],
           r'C05\.a:'),
    Mutant('append-results-twice', RUNNER, 'SimulationRunner._simulate_serially_all_param_variation',
           [('regex', r'(\n(\s*)self\.results\.append_all_results\(current_sim_results\))', r'\1\n\2self.results.append_all_results(current_sim_results)')],
           r'C05\.d:.*events'),
    Mutant('count-only-when-gt1', RUNNER, 'SimulationRunner._simulate_serially_all_param_variation',
           [('regex', r'\n(\s*)self\._runned_reps\.append\(current_rep\)', r'\n\1if current_rep > 1:\n\1    self._runned_reps.append(current_rep)')],
           r'C05\.d:.*events'),
    Mutant('indexer-iterates-raw-set', PAR, 'SimulationParameters.get_pack_indexes',
           [('replace', 'for i in self.unpacked_parameters:', 'for i in self._unpacked_parameters_set:')],
           r'C05\.e:SimulationParameters\.get_pack_indexes'),
    Mutant('enumerator-reverse-sort', PAR, 'SimulationParameters.get_unpacked_params_list',
           [('replace', 'sorted(self._unpacked_parameters_set)', 'sorted(self._unpacked_parameters_set, reverse=True)')],
           r'C05\.e:SimulationParameters\.get_unpacked_params_list'),
    Mutant('variation-index-truthiness', RUNNER, 'SimulationRunner.simulate',
           [('replace', 'if param_variation_index is None:', 'if not param_variation_index:')], r'C05\.f:SimulationRunner\.simulate'),
    Mutant('benign-gt-form', RUNNER, 'SimulationRunner._simulate_for_current_params_common',
           [('replace', 'current_rep < self.rep_max', 'self.rep_max > current_rep')], None, benign=True),
    Mutant('benign-rename-counter', RUNNER, 'SimulationRunner._simulate_for_current_params_common',
           [('regex_all', r'(?<![.\w])current_rep\b', 'n_done')], None, benign=True),
    Mutant('benign-dimensions-loop', PAR, 'SimulationParameters.get_pack_indexes',
           [('regex', r'dimensions = \[len\(self\.parameters\[i\]\) for i in self\.unpacked_parameters\]',
             'dimensions = []\n    for i in self.unpacked_parameters:\n        dimensions.append(len(self.parameters[i]))')],
           None, benign=True),
]

ENGINES = ['model', 'paths']
TECHNIQUE = ('static analysis: structured forward abstract interpretation of the repetition loop with exception '
             'edges (balanced-counter, must-protect, comparison normalisation) + provider-agreement rules')


def sweep(overlay):
    from ..selftest import simple_statement, sweep_lines
    out = []
    for path, q in ((RUNNER, 'SimulationRunner._simulate_for_current_params_common'),
                    (RUNNER, 'SimulationRunner._simulate_serially_all_param_variation'),
                    (PAR, 'SimulationParameters.get_pack_indexes'), (PAR, 'SimulationParameters.get_unpacked_params_list')):
        out += sweep_lines(overlay, path, q, simple_statement, 'C05')
    return out
