"""C06 - combining simulation results is independent of grouping; merging never mutates the operand."""
from __future__ import annotations

import ast
from typing import Dict, List, Set

from .. import codec, effects, tables
from ..model import MUTATORS, FuncInfo, is_self_attr, norm, root_name, walk_no_nested
from ..report import Ctx
from ..selftest import Mutant, synthetic_overlay

RES = 'pyphysim/simulations/results.py'

EXPLANATION = (
    'Decides the effect/agreement clauses of C06, not the numeric partition law. C06.a: Result.merge, '
    'SimulationResults.merge_all_results / append_all_results and combine_simulation_results contain no store, '
    'in-place call or receiver-mutating method call rooted at the merged-in operand (interprocedural, depth 3). '
    'C06.b: no container/object of the operand is alias-captured into the receiver without a copy (so a later merge '
    'into the receiver cannot mutate the operand). C06.c: every branch of Result.merge combines exactly the '
    'statistics the update rules maintain, and equality looks at them. C06.d: every np.<name> used in the package '
    'exists in the installed numpy (so every update rule is executable). Not decided: associativity of floating '
    'sums, mean/variance formulas, value semantics of combine_simulation_results.')

OPERANDS = [
    (RES, 'Result.merge', 'other', True),
    (RES, 'SimulationResults.merge_all_results', 'other', True),
    (RES, 'SimulationResults.append_all_results', 'other', False),
    (RES, 'combine_simulation_results', 'simresults1', False),
    (RES, 'combine_simulation_results', 'simresults2', False),
]
# reasoned exemption, premise verified on every run (see _value_inplace_writers)
CAPTURE_EXEMPT = {"self._value = other._value":
                  'MISC results replace _value on every update/merge; the only in-place writers of _value are in the '
                  'CHOICETYPE update rule, whose results are merged with += (fresh sum), never by assignment'}


def update_rules(ctx: Ctx) -> Dict[str, FuncInfo]:
    """type-code name -> the function Result.update dispatches to for it (a nested function or a method of Result)."""
    M = ctx.model
    upd = M.func(RES, 'Result.update')
    cls = M.cls('Result')
    sn = upd.self_name or 'self'
    out: Dict[str, FuncInfo] = {}
    for n in walk_no_nested(upd.node):
        if isinstance(n, ast.Dict) and n.keys and all(isinstance(k, ast.Attribute) for k in n.keys):
            for k, v in zip(n.keys, n.values):
                f = None
                if isinstance(v, ast.Name) and v.id in upd.nested:
                    f = upd.nested[v.id]
                else:
                    a = is_self_attr(v, sn)
                    if a:
                        f = M.lookup_method(cls, a)
                if f is not None:
                    out[k.attr] = f
    return out


def _value_inplace_writers(ctx: Ctx) -> List[str]:
    """Names of the type codes whose update rule writes self._value IN PLACE, plus '?<qualname>' for any other in-place writer."""
    cls = ctx.model.cls('Result')
    rules = update_rules(ctx)
    by_node = {id(f.node): code for code, f in rules.items()}
    out = []
    for fn in ctx.model.all_functions():
        if fn.cls is not cls:
            continue
        sn = fn.self_name or 'self'
        hit = False
        for n in walk_no_nested(fn.node):
            if isinstance(n, ast.Subscript) and isinstance(n.ctx, ast.Store) and is_self_attr(n.value, sn) == '_value':
                hit = True
            if isinstance(n, ast.Call) and isinstance(n.func, ast.Attribute) and n.func.attr in MUTATORS \
                    and is_self_attr(n.func.value, sn) == '_value':
                hit = True
        if hit:
            out.append(by_node.get(id(fn.node), '?' + fn.qualname))
    return sorted(set(out))


def _only_under_misc(model, fn: FuncInfo, node: ast.AST, depth: int = 0) -> bool:
    """node is reachable only when `self._update_type_code == Result.MISCTYPE` (conjunctions allowed, disjunctions
    not): under such a test in fn itself, or fn is a private method whose every call site in its class is."""
    if _under_misc_here(fn, node):
        return True
    if depth >= 3 or fn.cls is None or not fn.name.startswith('_') or fn.name.startswith('__') and fn.name.endswith('__'):
        return False
    sites = []
    for g in model.all_functions():
        if g.cls is None or not model.is_subclass(g.cls, fn.cls) and not model.is_subclass(fn.cls, g.cls):
            # a call through another receiver would not be seen: any `.name(` outside the class family forfeits the exemption
            if any(isinstance(n, ast.Call) and isinstance(n.func, ast.Attribute) and n.func.attr == fn.name for n in ast.walk(g.node)):
                return False
            continue
        for n in walk_no_nested(g.node):
            if isinstance(n, ast.Call) and isinstance(n.func, ast.Attribute) and n.func.attr == fn.name:
                sites.append((g, n))
    return bool(sites) and all(_only_under_misc(model, g, n, depth + 1) for g, n in sites)


def _under_misc_here(fn: FuncInfo, node: ast.AST) -> bool:
    for n in walk_no_nested(fn.node):
        if isinstance(n, ast.If) and any(node is x for s in n.body for x in ast.walk(s)):
            conj = n.test.values if isinstance(n.test, ast.BoolOp) and isinstance(n.test.op, ast.And) else [n.test]
            for c in conj:
                if isinstance(c, ast.Compare) and len(c.ops) == 1 and isinstance(c.ops[0], ast.Eq):
                    sides = {norm(c.left), norm(c.comparators[0])}
                    if sides == {'self._update_type_code', 'Result.MISCTYPE'}:
                        return True
    return False


def _check_combine_per_combination(ctx: Ctx) -> None:
    """C06.f: whatever combine_simulation_results returns was put together combination by combination."""
    from ..astutil import return_dependences
    M = ctx.model
    ctx.rule('C06.f', 'combine_simulation_results: every returned result set is built through the per-combination lookup of BOTH operands '
                      '(`<operand>.params.get_pack_indexes(...)`): no return path merges whole result lists, which would combine only one '
                      'combination per name', floor=1)
    fn = M.func(RES, 'combine_simulation_results')
    ops = [p for p in fn.params][:2]
    rets = [(r, d) for r, d in return_dependences(fn) if r.value is not None]
    if not rets:
        ctx.error('C06.f: combine_simulation_results returns nothing (cannot tell)')
    for r, deps in rets:
        construct = 'combine_simulation_results:return@%d' % (rets.index((r, deps)))
        ctx.instance('C06.f', construct)
        looked = {o: any(d.startswith(o + '.') and d.split('.')[-1] == 'get_pack_indexes' for d in deps) for o in ops}
        whole = sorted(d for d in deps if d.split('.')[-1] in ('merge_all_results', 'append_all_results'))
        ok = all(looked.values())
        ctx.obligation('C06.f', construct, ok, {'per_combination_lookup': looked, 'whole_set_merges': whole})
        if not ok:
            ctx.violation('C06.f', 'combine_simulation_results', 'the result set returned at line %d is not built through the per-combination lookup of %s%s: '
                          'for operands on the same grid only the last combination of each result is combined'
                          % (r.lineno, [o for o, v in looked.items() if not v], ' (it uses %s)' % whole if whole else ''),
                          fn.path, r.lineno, operand='per-combination')


def _check_merged_once(ctx: Ctx) -> None:
    M = ctx.model
    ctx.rule('C06.e', 'merge_all_results merges every named result exactly once (the specially named num_skipped_reps included)', floor=1)
    fn = M.func(RES, 'SimulationResults.merge_all_results')
    q = 'SimulationResults.merge_all_results'
    ctx.instance('C06.e', q)
    SPECIAL = 'num_skipped_reps'
    dedicated = [c for c in ast.walk(fn.node) if isinstance(c, ast.Call) and isinstance(c.func, ast.Attribute) and c.func.attr == 'merge'
                 and any(isinstance(x, ast.Constant) and x.value == SPECIAL for x in ast.walk(c.func.value))]
    loops = [l for l in walk_no_nested(fn.node) if isinstance(l, ast.For)]
    generic = []
    for l in loops:
        # loop variables: `for name in ..` or `for name, result_list in <mapping>.items()` (the merge goes through any of them)
        tvs = {x.id for x in ast.walk(l.target) if isinstance(x, ast.Name)}
        for c in ast.walk(l):
            if isinstance(c, ast.Call) and isinstance(c.func, ast.Attribute) and c.func.attr == 'merge' and c not in dedicated \
                    and tvs and any(isinstance(x, ast.Name) and x.id in tvs for x in ast.walk(c.func.value)):
                # is the call guarded by a test that excludes the special name?
                excl = False
                for i in ast.walk(l):
                    if isinstance(i, ast.If) and any(c is x for s in i.body for x in ast.walk(s)):
                        t = norm(i.test).replace(' ', '').replace('"', "'")
                        if any(t in ("%s!='%s'" % (v, SPECIAL), "'%s'!=%s" % (SPECIAL, v), "not%s=='%s'" % (v, SPECIAL)) for v in tvs):
                            excl = True
                # ... or by an earlier `if name == 'num_skipped_reps': continue` in the same loop body
                for st_ in l.body:
                    if any(c is x for x in ast.walk(st_)):
                        break
                    if isinstance(st_, ast.If) and not st_.orelse and len(st_.body) == 1 and isinstance(st_.body[0], ast.Continue):
                        t = norm(st_.test).replace(' ', '').replace('"', "'")
                        if any(t in ("%s=='%s'" % (v, SPECIAL), "'%s'==%s" % (SPECIAL, v)) for v in tvs):
                            excl = True
                # ... or the loop runs over a selection that already left the special name out
                from ..astutil import expander
                src = expander(fn)(l.iter)
                if isinstance(src, (ast.ListComp, ast.GeneratorExp, ast.SetComp)) and len(src.generators) == 1:
                    g = src.generators[0]
                    tv = norm(g.target)
                    for cond in g.ifs:
                        t = norm(cond).replace(' ', '').replace('"', "'")
                        if t in ("%s!='%s'" % (tv, SPECIAL), "'%s'!=%s" % (SPECIAL, tv), "not%s=='%s'" % (tv, SPECIAL)) and norm(src.elt) == tv:
                            excl = True
                generic.append((c, excl))
    ok = len(generic) == 1 and ((len(dedicated) == 1 and generic[0][1]) or (len(dedicated) == 0 and not generic[0][1]))
    ctx.obligation('C06.e', q, ok, {'generic_merge_sites': len(generic), 'generic_excludes_special': [g[1] for g in generic],
                                    'dedicated_merges_of_num_skipped_reps': len(dedicated)})
    if not ok:
        ctx.violation('C06.e', q, 'a result can be merged twice or not at all: %d generic merge site(s) %s the name %r while %d dedicated '
                      'merge(s) of it exist' % (len(generic), 'excluding' if generic and generic[0][1] else 'NOT excluding', SPECIAL,
                                               len(dedicated)), fn.path, fn.lineno, operand='once')


def check(ctx: Ctx) -> None:
    M = ctx.model
    ctx.assume('foreign (non-pyphysim) callees do not mutate their arguments; copy/deepcopy/list/np.array/... return '
               'fresh objects; attributes initialised only with constants in __init__ hold immutable scalars')
    ctx.rule('C06.a', 'no mutation of the merged-in operand (stores, in-place calls, receiver-mutating methods)', floor=5)
    ctx.rule('C06.b', 'no alias capture of operand containers/objects into the receiver', floor=2)
    inplace = _value_inplace_writers(ctx)
    premise_ok = inplace == ['CHOICETYPE']
    for path, qual, operand, capture in OPERANDS:
        fn = M.func(path, qual)
        if operand not in fn.params:
            ctx.error('C06: operand parameter %s of %s vanished' % (operand, qual))
        effs = effects.analyse_operand(M, fn, operand, check_capture=capture)
        construct = '%s(%s)' % (qual, operand)
        ctx.instance('C06.a', construct)
        muts = [e for e in effs if e.kind == 'mutation']
        ctx.obligation('C06.a', construct, not muts,
                       {'operand': operand, 'mutation_events': [e.what for e in muts],
                        'statements_scanned': sum(1 for _ in walk_no_nested(fn.node))})
        for e in muts:
            ctx.violation('C06.a', qual, 'the merged-in operand `%s` is mutated: %s (via %s)'
                          % (operand, e.what, ' -> '.join(e.chain)), e.fn.path, e.line, operand=operand)
        if capture:
            ctx.instance('C06.b', construct)
            caps = []
            for e in effs:
                if e.kind != 'capture':
                    continue
                stmt = norm(e.node)
                if stmt in CAPTURE_EXEMPT and e.fn.cls is M.cls('Result'):
                    if premise_ok and _only_under_misc(M, e.fn, e.node):
                        ctx.note('exempt capture %s in %s: %s (in-place writers of _value: %s)'
                                 % (stmt, e.fn.qualname, CAPTURE_EXEMPT[stmt], inplace))
                        continue
                caps.append(e)
            ctx.obligation('C06.b', construct, not caps, {'operand': operand, 'capture_events': [e.what for e in caps]})
            for e in caps:
                ctx.violation('C06.b', qual, 'state of the merged-in operand `%s` is aliased by the receiver: %s (via %s); '
                              'a later merge into the receiver mutates the operand'
                              % (operand, e.what, ' -> '.join(e.chain)), e.fn.path, e.line,
                              operand=operand + ':' + e.fn.qualname)
    _check_stat_sets(ctx)
    _check_numpy_names(ctx)
    _check_merged_once(ctx)
    _check_combine_per_combination(ctx)
    from ..idioms import check_exact_matching
    check_exact_matching(ctx, 'C06.g', ['pyphysim/simulations/parameters.py', RES], floor=40)
    from ..idioms import check_restores_protected
    check_restores_protected(ctx, 'C06.h', [RES], floor=40)


def _stored_attrs(nodes, sn: str, model=None, cls=None, depth: int = 0) -> Set[str]:
    """Attributes of self written by the statements (through private helper methods of the class too)."""
    out: Set[str] = set()
    for b in nodes:
        for n in ast.walk(b):
            if model is not None and cls is not None and depth < 4 and isinstance(n, ast.Call) and isinstance(n.func, ast.Attribute):
                h = is_self_attr(n.func, sn)
                m = model.lookup_method(cls, h) if h else None
                if m is not None and m.self_name:
                    out |= _stored_attrs(m.node.body, m.self_name, model, cls, depth + 1)
            if isinstance(n, (ast.Attribute,)) and isinstance(n.ctx, ast.Store) and is_self_attr(n, sn):
                out.add(n.attr)
            if isinstance(n, ast.Subscript) and isinstance(n.ctx, ast.Store) and is_self_attr(n.value, sn):
                out.add(n.value.attr)
            if isinstance(n, ast.Call) and isinstance(n.func, ast.Attribute) and n.func.attr in MUTATORS:
                a = is_self_attr(n.func.value, sn)
                if a:
                    out.add(a)
    return out


def _check_stat_sets(ctx: Ctx) -> None:
    M = ctx.model
    ctx.rule('C06.c', 'each branch of Result.merge combines exactly the statistics Result.update maintains; '
                      '__eq__ compares them', floor=7)
    upd = M.func(RES, 'Result.update')
    mrg = M.func(RES, 'Result.merge')
    eq = M.func(RES, 'Result.__eq__')
    sn = upd.self_name or 'self'
    maintained = _stored_attrs([upd.node], sn)
    rules = update_rules(ctx)
    if len(rules) < 4:
        ctx.error('C06.c: Result.update no longer dispatches to four update rules through a type-code dictionary (idiom unknown)')
    for rf in rules.values():
        if rf.kind != 'nested' and rf.self_name:
            maintained |= _stored_attrs(rf.node.body, rf.self_name, M, M.cls('Result'))
    # merge: statements outside the type test apply to every branch; the if/else on the type code gives the branches
    common: Set[str] = set()
    branches: List[Set[str]] = []
    from ..astutil import always_exits
    cls = M.cls('Result')
    body = list(mrg.node.body)
    for i, s in enumerate(body):
        if isinstance(s, ast.If) and any(is_self_attr(n, sn) == '_update_type_code' for n in ast.walk(s.test)):
            if s.orelse:
                branches = [_stored_attrs(s.body, sn, M, cls), _stored_attrs(s.orelse, sn, M, cls)]
            elif always_exits(s.body):
                # `if MISC: ...; return` followed by the additive statements
                branches = [_stored_attrs(s.body, sn, M, cls), _stored_attrs(body[i + 1:], sn, M, cls)]
                break
            else:
                common |= _stored_attrs([s], sn, M, cls)
        else:
            common |= _stored_attrs([s], sn, M, cls)
    if len(branches) != 2:
        ctx.error('C06.c: Result.merge no longer branches on the type code (idiom unknown)')
    eq_attrs, _ = codec.eq_compared_attrs(M, eq)
    for i, b in enumerate(branches):
        name = ['MISCTYPE-branch', 'additive-branch'][i]
        for a in sorted(maintained):
            construct = 'Result.merge:%s:%s' % (name, a)
            ctx.instance('C06.c', construct)
            ok = a in (b | common)
            ctx.obligation('C06.c', construct, ok, {'statistic': a, 'combined_in_branch': sorted(b | common)})
            if not ok:
                ctx.violation('C06.c', 'Result.merge', 'statistic %s is maintained by Result.update but not combined in '
                              'the %s of merge: merged and sequentially updated results differ' % (a, name),
                              mrg.path, mrg.lineno, operand='%s:%s' % (name, a))
        for a in sorted((b | common) - maintained):
            ctx.violation('C06.c', 'Result.merge', 'merge combines %s which no update rule maintains' % a,
                          mrg.path, mrg.lineno, operand='%s:extra:%s' % (name, a))
    for a in sorted(maintained - {'num_updates'}):
        ok = a in eq_attrs
        ctx.obligation('C06.c', 'Result.__eq__:' + a, ok, {'compared': sorted(eq_attrs)})
        if not ok:
            ctx.violation('C06.c', 'Result.__eq__', 'statistic %s is maintained/merged but invisible to equality' % a,
                          eq.path, eq.lineno, operand=a)


def _check_numpy_names(ctx: Ctx) -> None:
    ctx.rule('C06.d', 'every np.<name> used in pyphysim exists in the installed numpy (stub parsed, not imported)', floor=50)
    names, stub = tables.numpy_public_names()
    ctx.stats['numpy_stub'] = stub
    ctx.stats['numpy_public_names'] = len(names)
    seen: Dict[str, int] = {}
    for m, owner, attr, line in tables.numpy_attr_uses(ctx.model):
        first = attr not in seen
        seen[attr] = seen.get(attr, 0) + 1
        if first:
            ctx.instance('C06.d', 'np.' + attr)
        ok = attr in names
        if first or not ok:
            ctx.obligation('C06.d', 'np.' + attr, ok, {'first_use': '%s:%d' % (m.path, line), 'in': owner} if first and len(seen) < 4 or not ok else None)
        if not ok:
            ctx.violation('C06.d', owner, 'np.%s does not exist in the installed numpy: evaluating it raises '
                          'AttributeError' % attr, m.path, line, operand='np.' + attr)
    ctx.stats['numpy_attribute_uses'] = sum(seen.values())


_SYN = '''
class Acc:
    def __init__(self):
        self.items = []
        self.n = 0
    def merge_ok(self, other):
        self.items.extend(list(other.items))
        self.n += other.n
    def merge_capture(self, other):
        self.items = other.items
    def merge_mutate(self, other):
        other.items.clear()
'''


def synthetic():
    ov = synthetic_overlay({'pyphysim/syn.py': _SYN})
    ctx = Ctx('C06', ov)
    out = []
    for name, kinds in (('merge_ok', []), ('merge_capture', ['capture']), ('merge_mutate', ['mutation'])):
        fn = ctx.model.func('pyphysim/syn.py', 'Acc.' + name)
        effs = effects.analyse_operand(ctx.model, fn, 'other')
        out.append(('effects-' + name, sorted({e.kind for e in effs}) == kinds))
    return out


MUTANTS = [
    Mutant('same-grid-fast-path-merges-whole-sets', RES, 'combine_simulation_results',
           [('regex', r'(\n    union = SimulationResults\(\))', r'\n    if simresults1.params == simresults2.params:\n        fast = copy.deepcopy(simresults1)\n        fast.merge_all_results(simresults2)\n        return fast\1')],
           r'C06\.f:combine_simulation_results:per-combination'),
    Mutant('clear-operand-list', RES, 'Result.merge',
           [('replace', 'self._value_list.extend(other._value_list)', 'self._value_list.extend(other._value_list)\n        other._value_list.clear()')],
           r'C06\.a:Result\.merge:other'),
    Mutant('capture-value-list', RES, 'Result.merge',
           [('replace', 'self._value_list.extend(other._value_list)', 'self._value_list = other._value_list')],
           r'C06\.[bc]:Result\.merge'),
    Mutant('revert-fix-empty-receiver-alias', RES, 'SimulationResults.merge_all_results',
           [('regex', r'self\._results\[name\] = [^\n]*', 'self._results[name] = other[name]')],
           r'C06\.b:SimulationResults\.merge_all_results'),
    Mutant('drop-squared-sum-from-additive-branch', RES, 'Result.merge',
           [('delete', r'self\._result_squared_sum \+= other\._result_squared_sum')],
           r'C06\.c:Result\.merge:additive-branch:_result_squared_sum'),
    Mutant('drop-total-from-misc-branch', RES, 'Result.merge',
           [('delete', r'self\._total = other\._total')], r'C06\.c:Result\.merge:MISCTYPE-branch:_total'),
    Mutant('use-np.float', RES, 'Result.get_result_mean',
           [('replace', 'return self._result_sum / self.num_updates', 'return np.float(self._result_sum) / self.num_updates')],
           r'C06\.d:Result\.get_result_mean:np\.float'),
    Mutant('revert-fix-np.int', RES, 'Result.update',
           [('replace', 'np.integer', 'np.int')], r'C06\.d:.*np\.int'),
    Mutant('misc-branch-also-for-fresh-receiver', RES, 'Result.merge',
           [('replace', 'if self._update_type_code == Result.MISCTYPE:', 'if self._update_type_code == Result.MISCTYPE or self.num_updates == 0:')],
           r'C06\.b:Result\.merge'),
    Mutant('skipped-reps-merged-twice', RES, 'SimulationResults.merge_all_results',
           [('replace', "if item != 'num_skipped_reps':", 'if item in other._results:')], r'C06\.e:SimulationResults\.merge_all_results'),
    Mutant('benign-extend-copy', RES, 'Result.merge',
           [('replace', 'self._value_list.extend(other._value_list)', 'self._value_list.extend(list(other._value_list))')],
           None, benign=True),
    Mutant('benign-use-np.float64', RES, 'Result.get_result_mean',
           [('replace', 'return self._result_sum / self.num_updates', 'return np.float64(self._result_sum) / self.num_updates')],
           None, benign=True),
    Mutant('benign-reorder-merge-statements', RES, 'Result.merge',
           [('regex', r'(self\._total \+= other\._total)\n(\s*)(self\._result_sum \+= other\._result_sum)', r'\3\n\2\1')],
           None, benign=True),
]

ENGINES = ['model', 'codec', 'tables']
TECHNIQUE = ('static analysis: interprocedural parameter effect/alias-capture analysis, statistic-set agreement '
             'between update and merge, live-numpy-name rule')


def sweep(overlay):
    from ..selftest import simple_statement, sweep_lines
    out = []
    for q in ('Result.merge', 'SimulationResults.merge_all_results'):
        out += sweep_lines(overlay, RES, q, simple_statement, 'C06')
    return out
