"""C11 - reported SINRs equal first-principles S/(I+N) (structural clauses)."""
from __future__ import annotations

import ast
from typing import Dict, List, Optional, Set, Tuple

from ..astutil import adjoint_of, matmul_operands
from ..model import FuncInfo, Model, is_self_attr, norm, walk_no_nested
from ..report import Ctx
from ..selftest import Mutant

MU = 'pyphysim/channels/multiuser.py'
IA = 'pyphysim/ia/iabase.py'
ALG = 'pyphysim/ia/algorithms.py'

EXPLANATION = (
    'Decides the structural clauses of C11, not the numeric agreement. C11.a (accessor discipline): the IA-side '
    'covariance/SINR code reads precoders only through full_F (power-scaled), the receive filter of the SINR only '
    'through full_W_H and channels only through _get_channel (path-loss-scaled); a read of F/_F there silently '
    'assumes unit power - exactly the disagreement between the two implementations the property is about. C11.b '
    '(summation domains and index agreement): every interference sum ranges over "all users" or "all users minus '
    '{k}" as its formula states, the transmitter index of the channel accessor is the loop variable and equals the '
    'index of the precoder/filter/power it multiplies; B_kl = first part - second part; the desired-signal terms use '
    'H_kk and the same stream index for precoder column, filter row and B_kl. C11.c (kinds): every reported '
    'covariance is zeros + sum of X X^H terms (+ non-negative multiples of the identity / of X X^H), i.e. Hermitian '
    'PSD by construction; the noise term enters each B_kl exactly once; the stored SINR is wrapped in abs; sum '
    'capacity is sum(log2(1 + SINR)). Not decided: numeric agreement of the two code paths, scale invariance.')

# ---- C11.a tables
IA_FUNCS = ['IASolverBaseClass.calc_Q', 'IASolverBaseClass._calc_Bkl_cov_matrix_first_part',
            'IASolverBaseClass._calc_Bkl_cov_matrix_second_part', 'IASolverBaseClass._calc_Bkl_cov_matrix_all_l',
            'IASolverBaseClass._calc_SINR_k', 'IASolverBaseClass._calc_equivalent_channel']
FORBIDDEN_PRECODER = {'F', '_F'}
FORBIDDEN_FILTER_IN_SINR = {'W', '_W', 'W_H', '_W_H', '_full_W_H', '_full_F'}

# ---- C11.b table: function -> (path, expected domain, channel accessor(s), indexed operands)
SUMS = [
    (MU, 'MultiUserChannelMatrix._calc_Q_impl', 'others', {'get_Hkl'}, {'F_all_users'}),
    (MU, 'MultiUserChannelMatrix._calc_JP_Q_impl', 'others', set(), {'F_all_users'}),
    (MU, 'MultiUserChannelMatrixExtInt._calc_JP_Q', 'others', set(), {'F_all_users'}),
    (MU, 'MultiUserChannelMatrix._calc_Bkl_cov_matrix_first_part', 'all', {'get_Hkl'}, {'F_all_users'}),
    (MU, 'MultiUserChannelMatrix._calc_JP_Bkl_cov_matrix_first_part_impl', 'all', set(), {'F_all_users'}),
    (IA, 'IASolverBaseClass._calc_Bkl_cov_matrix_first_part', 'all', {'_get_channel'}, {'self.full_F'}),
    (IA, 'IASolverBaseClass.calc_Q_rev', 'others', {'_get_channel_rev'}, {'self._W', 'P'}),
]


def _locals(fn: FuncInfo) -> Dict[str, List[ast.AST]]:
    out: Dict[str, List[ast.AST]] = {}
    for n in walk_no_nested(fn.node):
        if isinstance(n, ast.Assign) and len(n.targets) == 1 and isinstance(n.targets[0], ast.Name):
            out.setdefault(n.targets[0].id, []).append(n.value)
        elif isinstance(n, ast.AugAssign) and isinstance(n.target, ast.Name):
            out.setdefault(n.target.id, []).append(n)
    return out


def _domain(fn: FuncInfo, it: ast.AST) -> str:
    """'all' (every user), 'others' (every user except k), 'bad:<why>' (a recognised selection that is neither), else 'unknown:<text>'."""
    from ..astutil import all_but_one, expander, _full_range
    ex = expander(fn)
    e = ex(it)
    s = norm(e).replace(' ', '')
    N = _full_range(e)
    if N is not None:
        return 'all' if N in ('self.K', 'K', 'self._K') else 'bad:the range covers %s, not the K users' % N
    sel = all_but_one(e, ex)
    if sel is not None:
        if sel[0] == 'ok':
            if sel[1] in ('self.K', 'K', 'self._K') and sel[2] == 'k':
                return 'others'
            return 'bad:{0..%s-1} minus {%s}' % (sel[1], sel[2])
        return 'bad:' + sel[1]
    return 'unknown:' + s


def _canon_bkl(fn: FuncInfo) -> ast.AST:
    """copy of the function in which the locals of the B_kl computation carry canonical names, whatever the code calls them: the local
    bound from the `..first_part..` call is `first_part`, from the `..second_part..` call `second_part`, the per-stream container that is
    returned `Bkl_all_l`, the loop variable of the stream loop `l`"""
    import copy
    node = copy.deepcopy(fn.node)
    ren = {}
    for n in walk_no_nested(node):
        if isinstance(n, ast.Assign) and len(n.targets) == 1 and isinstance(n.targets[0], ast.Name) and isinstance(n.value, ast.Call) \
                and isinstance(n.value.func, ast.Attribute):
            if 'first_part' in n.value.func.attr:
                ren[n.targets[0].id] = 'first_part'
            elif 'second_part' in n.value.func.attr:
                ren[n.targets[0].id] = 'second_part'
    rets = [n.value.id for n in walk_no_nested(node) if isinstance(n, ast.Return) and isinstance(n.value, ast.Name)]
    if len(set(rets)) == 1:
        ren[rets[0]] = 'Bkl_all_l'
    loops = [n for n in walk_no_nested(node) if isinstance(n, ast.For) and isinstance(n.target, ast.Name)]
    if len(loops) == 1:
        ren[loops[0].target.id] = 'l'
    for n in ast.walk(node):
        if isinstance(n, ast.Name) and n.id in ren:
            n.id = ren[n.id]
    return node



def _origin_of(fn: FuncInfo, name: str) -> str:
    """text of what a local was bound from (its own name included): `B = self._calc_Bkl_cov_matrix_all_l(k)` -> mentions Bkl"""
    out = name
    for n in walk_no_nested(fn.node):
        if isinstance(n, ast.Assign) and any(isinstance(t, ast.Name) and t.id == name for t in n.targets):
            out += ' ' + norm(n.value)
    return out



def check(ctx: Ctx) -> None:
    M = ctx.model
    ctx.assume('noise variance, pe and the powers P are validated non-negative (setters assert it); a covariance passed '
               'in as N0_or_Rek/Rek is PSD by contract; np.dot/@ and the repo spellings of the adjoint are recognised')
    from ..units import check_units
    check_units(ctx, 'C11.e', [MU, IA, ALG], floor=2)
    from ..idioms import check_restores_protected, check_no_cyclic_resize
    check_restores_protected(ctx, 'C11.f', [MU, IA, ALG], floor=100)
    check_no_cyclic_resize(ctx, 'C11.g', [MU, IA, ALG], floor=100)
    # ------------------------------------------------------------------ C11.a
    ctx.rule('C11.a', 'IA-side covariance/SINR code reads full_F / full_W_H / _get_channel only', floor=8)
    funcs = [M.func(IA, q) for q in IA_FUNCS] + [M.func(ALG, 'AlternatingMinIASolver.get_cost')]
    for fn in funcs:
        sn = fn.self_name or 'self'
        construct = fn.qualname
        bad = []
        n_reads = 0
        for n in walk_no_nested(fn.node):
            a = is_self_attr(n, sn) if isinstance(n, ast.Attribute) and isinstance(n.ctx, ast.Load) else None
            if a is None:
                continue
            if a in ('full_F', 'full_W_H') or a == '_get_channel':
                n_reads += 1
            if a in FORBIDDEN_PRECODER:
                bad.append((a, n.lineno, 'unscaled precoder (assumes P = 1)'))
            if fn.name == '_calc_SINR_k' and a in FORBIDDEN_FILTER_IN_SINR:
                bad.append((a, n.lineno, 'receive filter / cache read directly instead of full_W_H/full_F'))
            if a == '_multiUserChannel' and fn.name not in ('calc_Q',):
                bad.append((a, n.lineno, 'raw channel object instead of _get_channel'))
        ctx.instance('C11.a', construct)
        ctx.obligation('C11.a', construct, not bad, {'scaled_accessor_reads': n_reads, 'offending_reads': bad})
        for a, line, why in bad:
            ctx.violation('C11.a', construct, 'reads self.%s: %s; the solver-side SINR then disagrees with the channel-side one '
                          'for non-unit powers' % (a, why), fn.path, line, operand=a)
    # calc_Q hands the power-scaled precoder to the channel object
    fn = M.func(IA, 'IASolverBaseClass.calc_Q')
    calls = [c for c in ast.walk(fn.node) if isinstance(c, ast.Call) and norm(c.func) == 'self._multiUserChannel.calc_Q']
    ctx.instance('C11.a', 'IASolverBaseClass.calc_Q:argument')
    ok = len(calls) == 1 and [norm(a) for a in calls[0].args] == ['k', 'self.full_F']
    ctx.obligation('C11.a', 'IASolverBaseClass.calc_Q:argument', ok, {'call': norm(calls[0]) if calls else None})
    if not ok:
        ctx.violation('C11.a', 'IASolverBaseClass.calc_Q', 'does not pass (k, self.full_F) to the channel object', fn.path, fn.lineno,
                      operand='argument')
    # channel side: the covariance/SINR code obtains every block through the scaled accessors (H, big_H, get_Hkl, get_Hk*)
    RAW = {'_H_no_pathloss', '_big_H_no_pathloss', '_H_with_pathloss', '_big_H_with_pathloss', '_pathloss_matrix', '_pathloss_big_matrix'}
    for cname in ('MultiUserChannelMatrix', 'MultiUserChannelMatrixExtInt'):
        c = M.cls(cname)
        for fn in c.methods.values():
            if 'calc' not in fn.name or fn.self_name is None:
                continue
            raw = [(n.attr, n.lineno) for n in ast.walk(fn.node) if isinstance(n, ast.Attribute) and isinstance(n.ctx, ast.Load)
                   and is_self_attr(n, fn.self_name) in RAW]
            ctx.instance('C11.a', fn.qualname)
            ctx.obligation('C11.a', fn.qualname, not raw, {'raw_reads': raw} if raw else None, nontrivial=bool(raw))
            for a, line in raw:
                ctx.violation('C11.a', fn.qualname, 'reads the raw attribute self.%s instead of the path-loss-scaled accessors '
                              '(H/big_H/get_Hkl/get_Hk): the reported covariance/SINR ignores the current path loss' % a,
                              fn.path, line, operand=a)
    _check_stream_domains(ctx)
    _check_sums(ctx)
    _check_kinds(ctx)


def _check_sums(ctx: Ctx) -> None:
    M = ctx.model
    ctx.rule('C11.b', 'interference sums: domain, matched indices, first - second, desired-signal indices', floor=12)
    for path, q, want, accessors, operands in SUMS:
        fn = M.func(path, q)
        loops = [n for n in walk_no_nested(fn.node) if isinstance(n, ast.For)]
        scan: List[ast.AST] = []
        if len(loops) == 1 and isinstance(loops[0].target, ast.Name):
            loop = loops[0]
            v = loop.target.id
            dom_iter = loop.iter
            scan = list(ast.walk(loop))
        elif not loops:
            # sum(<generator>, start): follow the chain of generators (possibly named) down to the one over the users
            from ..astutil import single_locals
            defs_ = single_locals(fn)
            sums = [c for c in walk_no_nested(fn.node) if isinstance(c, ast.Call) and norm(c.func) in ('sum', 'np.sum') and c.args]
            gen = None
            chain: List[ast.AST] = []
            if len(sums) == 1:
                e_ = sums[0].args[0]
                for _ in range(6):
                    if isinstance(e_, ast.Name) and e_.id in defs_:
                        e_ = defs_[e_.id]
                        continue
                    if isinstance(e_, (ast.GeneratorExp, ast.ListComp)) and len(e_.generators) == 1:
                        chain.append(e_)
                        it_ = e_.generators[0].iter
                        if isinstance(it_, ast.Name) and it_.id in defs_ and isinstance(defs_[it_.id], (ast.GeneratorExp, ast.ListComp)):
                            e_ = defs_[it_.id]
                            continue
                        gen = e_
                    break
            if gen is None or not isinstance(gen.generators[0].target, ast.Name):
                ctx.error('C11.b: %s has neither a single summation loop nor one sum over a generator chain (cannot tell)' % q)
            loop = sums[0]
            v = gen.generators[0].target.id
            dom_iter = gen.generators[0].iter
            for g_ in chain:
                scan += list(ast.walk(g_))
        else:
            ctx.error('C11.b: %s no longer has a single summation loop' % q)
        construct = q
        ctx.instance('C11.b', construct)
        problems = []
        dom = _domain(fn, dom_iter)
        if dom.startswith('unknown:'):
            ctx.error('C11.b: %s sums over `%s`, which is neither a recognised "all users" nor "all users except k" selection (cannot tell)'
                      % (q, dom[8:][:80]))
        if dom != want:
            problems.append('sums over %s, the formula needs %s' % (dom, 'all users' if want == 'all' else 'all users except k'))
        for n in scan:
            if isinstance(n, ast.Call) and isinstance(n.func, ast.Attribute) and n.func.attr in accessors:
                args = [norm(a) for a in n.args]
                if args != ['k', v]:
                    problems.append('%s(%s) is not (k, %s)' % (n.func.attr, ', '.join(args), v))
            if isinstance(n, ast.Subscript) and norm(n.value) in operands and isinstance(n.ctx, ast.Load):
                if norm(n.slice) != v:
                    problems.append('%s[%s] is not indexed by the loop variable %s' % (norm(n.value), norm(n.slice), v))
        n_acc = sum(1 for n in scan if isinstance(n, ast.Call) and isinstance(n.func, ast.Attribute) and n.func.attr in accessors)
        n_ops = sum(1 for n in scan if isinstance(n, ast.Subscript) and norm(n.value) in operands)
        if accessors and n_acc == 0:
            problems.append('no call of %s inside the sum' % sorted(accessors))
        if n_ops == 0:
            problems.append('no use of %s inside the sum' % sorted(operands))
        ctx.obligation('C11.b', construct, not problems, {'domain': dom, 'accessor_calls': n_acc, 'indexed_operands': n_ops,
                                                         'problems': problems})
        if problems:
            ctx.violation('C11.b', construct, 'interference sum broken: %s' % '; '.join(problems), fn.path, loop.lineno, operand='sum')
    # B_kl = first - second (+ noise), same k, l
    for path, q, jp in ((MU, 'MultiUserChannelMatrix._calc_Bkl_cov_matrix_all_l', False),
                        (MU, 'MultiUserChannelMatrix._calc_JP_Bkl_cov_matrix_all_l', True),
                        (IA, 'IASolverBaseClass._calc_Bkl_cov_matrix_all_l', False)):
        fn = M.func(path, q)
        ctx.instance('C11.b', q)
        cnode = _canon_bkl(fn)
        st = [n for n in ast.walk(cnode) if isinstance(n, ast.Assign) and isinstance(n.targets[0], ast.Subscript)
              and norm(n.targets[0].value) == 'Bkl_all_l']
        ok = False
        detail = {}
        names = {n.id for x in st for n in ast.walk(x.value) if isinstance(n, ast.Name)}
        if len(st) != 1 or not {'first_part', 'second_part'} <= names:
            # the function was restructured: a differently shaped but correct computation cannot be told from a wrong one
            ctx.error('C11.b: %s no longer stores B_kl as a combination of first_part and second_part (cannot tell)' % q)
        if len(st) == 1:
            e = st[0].value
            s = norm(e).replace(' ', '')
            ok = s.startswith('first_part-second_part') and norm(st[0].targets[0].slice) == 'l'
            detail = {'store': norm(st[0])[:100]}
            sp = [c for c in ast.walk(cnode) if isinstance(c, ast.Call) and isinstance(c.func, ast.Attribute) and 'second_part' in c.func.attr]
            upar = [p_ for p_ in fn.params if p_ not in ('self', 'cls')][-1:] or ['k']
            ok = ok and len(sp) == 1 and [norm(a) for a in sp[0].args][-2:] == [upar[0] if upar[0] in [norm(a) for a in sp[0].args] else 'k', 'l']
        ctx.obligation('C11.b', q, ok, detail)
        if not ok:
            ctx.violation('C11.b', q, 'B_kl is not stored as first_part - second_part(k, l) at index l (%s)' % detail, fn.path, fn.lineno,
                          operand='first-minus-second')
    # second parts and SINR: H_kk and one stream index
    for path, q, acc in ((MU, 'MultiUserChannelMatrix._calc_Bkl_cov_matrix_second_part', 'get_Hkl'),
                         (IA, 'IASolverBaseClass._calc_Bkl_cov_matrix_second_part', '_get_channel'),
                         (MU, 'MultiUserChannelMatrix._calc_SINR_k', 'get_Hkl'),
                         (IA, 'IASolverBaseClass._calc_SINR_k', '_get_channel')):
        fn = M.func(path, q)
        ctx.instance('C11.b', q)
        calls = [c for c in ast.walk(fn.node) if isinstance(c, ast.Call) and isinstance(c.func, ast.Attribute) and c.func.attr == acc]
        # the direct channel: both user arguments are the SAME name (whatever it is called)
        ok = bool(calls) and all(len(c.args) >= 2 and isinstance(c.args[-2], ast.Name) and isinstance(c.args[-1], ast.Name)
                                 and c.args[-2].id == c.args[-1].id for c in calls)
        # one-stream slices: lower bound a name, upper - lower == 1 as terms (l:l+1, l:1+l ...), one stream variable for all of them
        from .. import terms as T_
        cols, svars = [], set()
        for n in ast.walk(fn.node):
            if isinstance(n, ast.Subscript) and isinstance(n.slice, ast.Tuple) and any(isinstance(e, ast.Slice) and e.lower is not None for e in n.slice.elts):
                cols.append(norm(n.slice).replace(' ', '').strip('()'))
                for e in n.slice.elts:
                    if isinstance(e, ast.Slice) and e.lower is not None:
                        try:
                            one = e.upper is not None and e.step is None and isinstance(e.lower, ast.Name) and \
                                (T_.from_ast(e.upper, T_.Env(M, fn)) - T_.from_ast(e.lower, T_.Env(M, fn))) == T_.Term.const(1)
                        except T_.Unknown:
                            one = False
                        svars.add(e.lower.id if one else '?')
                    elif not (isinstance(e, ast.Slice) and e.lower is None and e.upper is None):
                        svars.add('?')
        ok = ok and bool(cols) and len(svars) == 1 and '?' not in svars
        if fn.name == '_calc_SINR_k':
            sv_ = next(iter(svars)) if len(svars) == 1 else '?'
            ok = ok and any(isinstance(n, ast.Subscript) and isinstance(n.slice, ast.Name) and n.slice.id == sv_ and isinstance(n.value, ast.Name)
                            and 'Bkl' in _origin_of(fn, n.value.id) for n in ast.walk(fn.node))
        ctx.obligation('C11.b', q, ok, {'direct_channel_calls': [norm(c) for c in calls], 'stream_slices': cols})
        if not ok:
            ctx.violation('C11.b', q, 'desired-signal term does not use the direct channel (k, k) with one stream index l for precoder '
                          'column / filter row / B_kl (calls %s, slices %s)' % ([norm(c) for c in calls], cols), fn.path, fn.lineno,
                          operand='desired')


def _check_stream_domains(ctx: Ctx) -> None:
    """C11.d: a loop over the streams of one user must take its bound from THAT user's stream count."""
    M = ctx.model
    ctx.rule('C11.d', 'stream loops: the user whose stream count bounds the loop is the user whose precoder/equivalent-channel '
                      'columns the loop variable selects', floor=3)
    funcs = []
    for path, cname in ((MU, 'MultiUserChannelMatrix'), (MU, 'MultiUserChannelMatrixExtInt'), (IA, 'IASolverBaseClass')):
        c = M.cls(cname)
        funcs += [f for f in c.methods.values() if 'SINR' in f.name or 'Bkl' in f.name]
    for fn in funcs:
        loc = _locals(fn)

        def resolve(e, depth=0):
            if isinstance(e, ast.Name) and e.id in loc and len(loc[e.id]) == 1 and not isinstance(loc[e.id][0], ast.AugAssign) and depth < 4:
                return resolve(loc[e.id][0], depth + 1)
            return e

        def user_of(e):
            """Name of the user index of a per-user container access inside e (first `X[name]` with a plain Name index)."""
            e = resolve(e)
            for n in ast.walk(e):
                if isinstance(n, ast.Subscript) and isinstance(n.slice, ast.Name):
                    return n.slice.id
            return None
        loops = [n for n in ast.walk(fn.node) if isinstance(n, ast.For) and isinstance(n.target, ast.Name)
                 and isinstance(n.iter, ast.Call) and norm(n.iter.func) == 'range' and len(n.iter.args) == 1]
        for l in loops:
            v = l.target.id
            bu = user_of(l.iter.args[0])
            cols = []
            for n in ast.walk(l):
                if isinstance(n, ast.Subscript) and isinstance(n.slice, ast.Tuple) and any(
                        isinstance(e, ast.Slice) and e.lower is not None and norm(e.lower) == v for e in n.slice.elts):
                    cols.append(n)
            if not cols:
                continue
            construct = '%s:for %s in range(%s)' % (fn.qualname, v, norm(l.iter.args[0]))
            ctx.instance('C11.d', construct)
            bad = []
            for c_ in cols:
                au = user_of(c_.value)
                if bu is not None and au is not None and au != bu:
                    bad.append((norm(c_)[:40], au))
            ctx.obligation('C11.d', construct, not bad, {'bound_user': bu, 'column_accesses': [norm(c_)[:40] for c_ in cols], 'mismatch': bad})
            for acc, au in bad:
                ctx.violation('C11.d', fn.qualname, 'the loop over streams is bounded by the stream count of user `%s` but selects columns of '
                              'user `%s` (`%s`): streams beyond the first user\'s count are silently dropped when users have different '
                              'numbers of streams' % (bu, au, acc), fn.path, l.lineno, operand='stream-domain')


# ---------------------------------------------------------------------------------------------
NONNEG = {'pe', 'noise_power', 'noise_var', 'self.noise_var', 'N0_or_Rek'}


class Kinds:
    """PSD-kind inference over the expressions of one function (locals resolved flow-insensitively)."""

    def __init__(self, fn: FuncInfo):
        self.fn = fn
        self.loc = _locals(fn)
        self.busy: Set[str] = set()
        self.params = set(fn.params)
        self.why: List[str] = []

    def expand(self, e: ast.AST) -> ast.AST:
        """single-assignment local -> its defining expression (for operand comparison)."""
        if isinstance(e, ast.Name) and e.id in self.loc and len(self.loc[e.id]) == 1 and not isinstance(self.loc[e.id][0], ast.AugAssign):
            return self.loc[e.id][0]
        return e

    def same(self, a: ast.AST, b: ast.AST) -> bool:
        return norm(a) == norm(b) or norm(self.expand(a)) == norm(self.expand(b))

    def nonneg_scalar(self, e: ast.AST) -> bool:
        s = norm(e)
        if s in NONNEG:
            return True
        if isinstance(e, ast.Constant) and isinstance(e.value, (int, float)) and e.value >= 0:
            return True
        if isinstance(e, ast.Subscript) and norm(e.value) in ('P', 'self.P'):
            return True
        if isinstance(e, ast.Name):
            d = self.expand(e)
            return d is not e and self.nonneg_scalar(d)
        return False

    def is_gram(self, e: ast.AST) -> bool:
        """X X^H  (also s X X^H, A M A^H with M PSD)."""
        mm = matmul_operands(e)
        if mm is None:
            return False
        a, b = mm
        # X . adj(X)
        ad = adjoint_of(self.expand(b)) if adjoint_of(b) is None else adjoint_of(b)
        if ad is not None:
            if self.same(a, ad):
                return True
            # (s X) . adj(X)
            if isinstance(a, ast.BinOp) and isinstance(a.op, ast.Mult):
                for s, x in ((a.left, a.right), (a.right, a.left)):
                    if self.nonneg_scalar(s) and self.same(x, ad):
                        return True
        # A . (M . adj(A))
        mm2 = matmul_operands(self.expand(b))
        if mm2 is not None:
            m, c = mm2
            adc = adjoint_of(self.expand(c)) if adjoint_of(c) is None else adjoint_of(c)
            if adc is not None and self.same(a, adc) and self.psd(m):
                return True
        return False

    def psd(self, e: ast.AST) -> bool:
        e0 = e
        if isinstance(e, ast.Constant) and e.value in (0, 0.0):
            return True
        if isinstance(e, ast.Call) and norm(e.func) in ('np.zeros', 'np.zeros_like'):
            return True
        if isinstance(e, ast.Call) and norm(e.func) in ('np.eye', 'np.identity'):
            return True
        if self.is_gram(e):
            return True
        if isinstance(e, ast.BinOp) and isinstance(e.op, ast.Add):
            return self.psd(e.left) and self.psd(e.right)
        if isinstance(e, ast.BinOp) and isinstance(e.op, ast.Mult):
            return (self.nonneg_scalar(e.left) and self.psd(e.right)) or (self.nonneg_scalar(e.right) and self.psd(e.left))
        if isinstance(e, ast.Subscript) and isinstance(e.value, ast.Name):
            return self.psd(e.value)            # element of an array of PSD matrices
        if isinstance(e, ast.Call) and isinstance(e.func, ast.Attribute) and is_self_attr(e.func, self.fn.self_name or 'self'):
            return True                         # another repo provider: judged at its own definition
        if isinstance(e, ast.Name):
            if e.id in ('Rek', 'N0_or_Rek') and e.id in self.params and e.id not in self.loc:
                return True                     # covariance handed in: PSD by contract
            if e.id in self.busy:
                return True
            defs = self.loc.get(e.id)
            if not defs:
                self.why.append('%s has no definition' % e.id)
                return False
            self.busy.add(e.id)
            ok = True
            for d in defs:
                if isinstance(d, ast.AugAssign):
                    if not (isinstance(d.op, ast.Add) and self.psd(d.value)):
                        self.why.append('`%s` is not "+= PSD"' % norm(d)[:70])
                        ok = False
                elif isinstance(d, ast.IfExp):
                    ok = ok and self.psd(d.body) and self.psd(d.orelse)
                elif not self.psd(d):
                    self.why.append('`%s = %s` is not of PSD kind' % (e.id, norm(d)[:70]))
                    ok = False
            self.busy.discard(e.id)
            return ok
        if isinstance(e, ast.Call) and norm(e.func) in ('sum', 'np.sum') and e.args:
            g = self.expand(e.args[0])
            start_ok = len(e.args) < 2 or self.psd(e.args[1])
            if isinstance(g, (ast.GeneratorExp, ast.ListComp)) and len(g.generators) == 1:
                # element names bound by the generator(s) stand for themselves; chained generators are looked through
                saved = dict(self.loc)
                gi = g
                for _ in range(4):
                    it_ = self.expand(gi.generators[0].iter)
                    tg = gi.generators[0].target
                    if isinstance(it_, (ast.GeneratorExp, ast.ListComp)) and len(it_.generators) == 1:
                        # for (a, b) in ((ea, eb) for ...): bind a := ea, b := eb
                        if isinstance(tg, ast.Tuple) and isinstance(it_.elt, ast.Tuple) and len(tg.elts) == len(it_.elt.elts):
                            for x, xv in zip(tg.elts, it_.elt.elts):
                                if isinstance(x, ast.Name):
                                    self.loc[x.id] = [xv]
                        elif isinstance(tg, ast.Name):
                            self.loc[tg.id] = [it_.elt]
                        gi = it_
                        continue
                    break
                ok_ = start_ok and self.psd(g.elt)
                self.loc = saved
                return ok_
        if isinstance(e, ast.Call) and norm(e.func) == 'np.empty':
            return True                         # container filled element-wise; elements judged at their stores
        self.why.append('`%s` is not of a recognised PSD kind' % norm(e0)[:70])
        return False


PSD_FUNCS = [
    (MU, 'MultiUserChannelMatrix._calc_Q_impl'), (MU, 'MultiUserChannelMatrix.calc_Q'),
    (MU, 'MultiUserChannelMatrix._calc_JP_Q_impl'), (MU, 'MultiUserChannelMatrix.calc_JP_Q'),
    (MU, 'MultiUserChannelMatrixExtInt._calc_JP_Q'), (MU, 'MultiUserChannelMatrixExtInt.calc_Q'),
    (MU, 'MultiUserChannelMatrixExtInt.calc_JP_Q'),
    (MU, 'MultiUserChannelMatrix._calc_Bkl_cov_matrix_first_part'),
    (MU, 'MultiUserChannelMatrix._calc_JP_Bkl_cov_matrix_first_part_impl'),
    (IA, 'IASolverBaseClass._calc_Bkl_cov_matrix_first_part'), (IA, 'IASolverBaseClass.calc_Q_rev'),
]


def _check_kinds(ctx: Ctx) -> None:
    M = ctx.model
    ctx.rule('C11.c', 'covariances are PSD by construction; noise once per B_kl; SINR wrapped in abs; sum capacity shape', floor=14)
    for path, q in PSD_FUNCS:
        fn = M.func(path, q)
        ctx.instance('C11.c', q)
        k = Kinds(fn)
        rets = [n for n in walk_no_nested(fn.node) if isinstance(n, ast.Return) and n.value is not None]
        ok = bool(rets) and all(k.psd(r.value) for r in rets)
        ctx.obligation('C11.c', q, ok, {'returns': [norm(r.value)[:60] for r in rets], 'why_not': k.why[:3]})
        if not ok:
            ctx.violation('C11.c', q, 'the returned covariance is not zeros + sum of X X^H terms (+ non-negative multiples): %s'
                          % '; '.join(k.why[:3]), fn.path, fn.lineno, operand='psd')
    # element-wise stores of the external-interference covariance
    fn = M.func(MU, 'MultiUserChannelMatrixExtInt.calc_cov_matrix_extint_without_noise')
    ctx.instance('C11.c', fn.qualname)
    k = Kinds(fn)
    st = [n for n in ast.walk(fn.node) if isinstance(n, ast.Assign) and isinstance(n.targets[0], ast.Subscript) and norm(n.targets[0].value) == 'R_all_k']
    ok = len(st) == 1 and k.psd(st[0].value)
    ctx.obligation('C11.c', fn.qualname, ok, {'store': norm(st[0])[:90] if st else None, 'why_not': k.why[:2]})
    if not ok:
        ctx.violation('C11.c', fn.qualname, 'external-interference covariance is not pe * H H^H: %s' % k.why[:2], fn.path, fn.lineno, operand='psd')
    # ... and is LINEAR in the external-interference power pe (a pre-scaled channel inside the Gram product gives pe**2)
    from ..astutil import degree_in, single_locals
    pname = [p_ for p_ in fn.params if p_ != 'self']
    if len(st) == 1 and pname:
        construct = fn.qualname + ':linear-in-' + pname[0]
        ctx.instance('C11.c', construct)
        dg = degree_in(st[0].value, pname[0], single_locals(fn))
        if dg is None:
            ctx.error('C11.c: cannot determine how the external-interference covariance scales with %s (`%s`): cannot tell'
                      % (pname[0], norm(st[0].value)[:80]))
        ctx.obligation('C11.c', construct, dg == 1, {'degree_in_%s' % pname[0]: dg, 'store': norm(st[0])[:90]})
        if dg != 1:
            ctx.violation('C11.c', fn.qualname, 'the external-interference covariance scales like %s**%d, not linearly: the power of the '
                          'interference source enters %s' % (pname[0], dg, 'twice' if dg == 2 else 'not at all' if dg == 0 else 'wrongly'),
                          fn.path, st[0].lineno, operand='linear:' + pname[0])
    fn = M.func(MU, 'MultiUserChannelMatrixExtInt.calc_cov_matrix_extint_plus_noise')
    ctx.instance('C11.c', fn.qualname)
    k = Kinds(fn)
    augs = [n for n in ast.walk(fn.node) if isinstance(n, ast.AugAssign)]
    ok = len(augs) == 1 and isinstance(augs[0].op, ast.Add) and k.psd(augs[0].value)
    ctx.obligation('C11.c', fn.qualname, ok, {'update': norm(augs[0])[:80] if augs else None})
    if not ok:
        ctx.violation('C11.c', fn.qualname, 'noise is not added once as a non-negative multiple of the identity', fn.path, fn.lineno, operand='noise')
    # noise enters each B_kl exactly once
    fp = M.func(MU, 'MultiUserChannelMatrix._calc_Bkl_cov_matrix_first_part')
    adds = [n for n in walk_no_nested(fp.node) if isinstance(n, ast.Assign) and norm(n.targets[0]) == 'first_part'
            and 'Rek' in norm(n.value) and n not in [x for l in ast.walk(fp.node) if isinstance(l, ast.For) for x in ast.walk(l)]]
    ctx.instance('C11.c', fp.qualname + ':noise-once')
    def _one_rek_summand(e: ast.AST) -> bool:
        # <sum of the link terms> + Rek : Rek is one top-level summand and occurs nowhere else
        if not (isinstance(e, ast.BinOp) and isinstance(e.op, ast.Add)):
            return False
        l_, r_ = e.left, e.right
        return (norm(r_) == 'Rek' and 'Rek' not in {x.id for x in ast.walk(l_) if isinstance(x, ast.Name)}) or \
            (norm(l_) == 'Rek' and 'Rek' not in {x.id for x in ast.walk(r_) if isinstance(x, ast.Name)})
    ok = len(adds) == 1 and _one_rek_summand(adds[0].value)
    ctx.obligation('C11.c', fp.qualname + ':noise-once', ok, {'noise_statements_outside_loop': [norm(a) for a in adds]})
    if not ok:
        ctx.violation('C11.c', fp.qualname, 'the noise/external covariance is not added exactly once after the sum', fp.path, fp.lineno,
                      operand='noise-once')
    # the "noise variance or covariance matrix" argument is dispatched by a test that accepts EVERY real scalar
    construct = fp.qualname + ':scalar-dispatch'
    ctx.instance('C11.c', construct)
    disp = [n for n in ast.walk(fp.node) if isinstance(n, ast.Call) and norm(n.func) in ('isinstance', 'np.isscalar', 'np.ndim')
            and n.args and isinstance(n.args[0], ast.Name) and n.args[0].id in fp.params]
    verdict = None
    for c_ in disp:
        f_ = norm(c_.func)
        if f_ in ('np.isscalar', 'np.ndim'):
            verdict = True
        elif len(c_.args) == 2:
            kinds = [norm(x).split('.')[-1] for x in (c_.args[1].elts if isinstance(c_.args[1], ast.Tuple) else [c_.args[1]])]
            if 'Number' in kinds or 'Real' in kinds or ({'int', 'float'} <= set(kinds)):
                verdict = True
            elif set(kinds) <= {'float', 'int', 'complex', 'float64', 'floating'}:
                verdict = False
    if verdict is None:
        ctx.error('C11.c: how %s tells a noise variance from a covariance matrix is not recognised (cannot tell)' % fp.qualname)
    ctx.obligation('C11.c', construct, verdict, {'tests': [norm(c_)[:60] for c_ in disp]})
    if not verdict:
        ctx.violation('C11.c', fp.qualname, 'the noise argument is treated as a scalar variance only for %s: a variance given as another real '
                      'scalar type (a Python int, numpy.float32, ...) is added to EVERY entry as if it were a covariance matrix'
                      % [norm(c_)[:50] for c_ in disp], fp.path, disp[0].lineno, operand='scalar-dispatch')
    al = M.func(IA, 'IASolverBaseClass._calc_Bkl_cov_matrix_all_l')
    st = [n for n in ast.walk(_canon_bkl(al)) if isinstance(n, ast.Assign) and isinstance(n.targets[0], ast.Subscript) and norm(n.targets[0].value) == 'Bkl_all_l']
    ctx.instance('C11.c', al.qualname + ':noise-once')
    from ..astutil import expander
    if len(st) != 1:
        ctx.error('C11.c: %s no longer stores B_kl once (cannot tell)' % al.qualname)
    # named sub-terms (e.g. a hoisted noise covariance) are looked through; first_part/second_part stay names
    defs_keep = {'first_part', 'second_part'}
    from ..astutil import single_locals, expand
    dl = {k_: v_ for k_, v_ in single_locals(al).items() if k_ not in defs_keep}
    s = norm(expand(st[0].value, dl)).replace(' ', '')
    ok = s.count('noise_power') == 1 and ('noise_power*np.eye(' in s or 'np.eye(' in s and '*noise_power' in s) \
        and s.startswith('first_part-second_part+')
    fpi = M.func(IA, 'IASolverBaseClass._calc_Bkl_cov_matrix_first_part')
    ok = ok and 'noise' not in norm(fpi.node)
    ctx.obligation('C11.c', al.qualname + ':noise-once', ok, {'store': s[:100]})
    if not ok:
        ctx.violation('C11.c', al.qualname, 'noise does not enter B_kl exactly once as + noise_power * I', al.path, al.lineno, operand='noise-once')
    # SINR wrapped in abs, numerator/denominator shape
    for path, q in ((MU, 'MultiUserChannelMatrix._calc_SINR_k'), (MU, 'MultiUserChannelMatrix._calc_JP_SINR_k_impl'),
                    (IA, 'IASolverBaseClass._calc_SINR_k')):
        fn = M.func(path, q)
        ctx.instance('C11.c', q + ':abs')
        # the per-stream value: what is stored into the returned array at its stream index, or appended to the list the returned array
        # is built from (`return np.array(values, dtype=float)`)
        rets_ = [n for n in walk_no_nested(fn.node) if isinstance(n, ast.Return) and n.value is not None]
        out_names = set()
        for r_ in rets_:
            v_ = r_.value
            if isinstance(v_, ast.Call) and norm(v_.func) in ('np.array', 'np.asarray') and v_.args:
                v_ = v_.args[0]
            if isinstance(v_, ast.Name):
                out_names.add(v_.id)
        if len(out_names) != 1:
            ctx.error('C11.c: %s does not return one array of per-stream values (cannot tell)' % q)
        on_ = out_names.pop()
        st = [n for n in ast.walk(fn.node) if isinstance(n, ast.Assign) and isinstance(n.targets[0], ast.Subscript) and norm(n.targets[0].value) == on_]
        vals_ = [n.value for n in st]
        vals_ += [n.value.args[0] for n in ast.walk(fn.node) if isinstance(n, ast.Expr) and isinstance(n.value, ast.Call)
                  and isinstance(n.value.func, ast.Attribute) and n.value.func.attr == 'append' and norm(n.value.func.value) == on_ and n.value.args]
        loc = _locals(fn)
        ok = len(vals_) == 1 and isinstance(vals_[0], ast.Call) and norm(vals_[0].func) in ('np.abs', 'abs', 'np.absolute')
        if ok:
            inner = vals_[0].args[0]
            d = loc.get(norm(inner), [inner])[0] if isinstance(inner, ast.Name) else inner
            ok = isinstance(d, ast.BinOp) and isinstance(d.op, ast.Div)
            # numerator and denominator are whatever the quotient divides (locals are looked up, their names do not matter)
            def _scalar_of(e_):
                # x.item() / float(x) / x[0, 0] only pick the one element of a 1 x 1 product
                while True:
                    if isinstance(e_, ast.Call) and isinstance(e_.func, ast.Attribute) and e_.func.attr == 'item' and not e_.args:
                        e_ = e_.func.value
                    elif isinstance(e_, ast.Call) and norm(e_.func) in ('float', 'complex', 'np.squeeze', 'np.real') and len(e_.args) == 1:
                        e_ = e_.args[0]
                    else:
                        return e_
            dl_, dr_ = (_scalar_of(d.left), _scalar_of(d.right)) if ok else (None, None)
            num = (loc.get(dl_.id, [None])[0] if isinstance(dl_, ast.Name) else dl_) if ok else None
            den = (loc.get(dr_.id, [None])[0] if isinstance(dr_, ast.Name) else dr_) if ok else None
            k = Kinds(fn)
            ok = ok and num is not None and k.is_gram(num)
            if ok and den is not None:
                # u^H B[l] u: one subscript by a plain name of a local that comes from the B_kl computation, the same filter name twice
                bsub = [x for x in ast.walk(den) if isinstance(x, ast.Subscript) and isinstance(x.slice, ast.Name) and isinstance(x.value, ast.Name)
                        and 'Bkl' in _origin_of(fn, x.value.id)]
                names_ = [x.id for x in ast.walk(den) if isinstance(x, ast.Name) and not any(x is b.value or x is b.slice for b in bsub)
                          and x.id not in ('np', 'numpy')]
                ok = len(bsub) == 1 and len(names_) == 2          # the filter on both sides of B_kl[l]
            else:
                ok = False
        ctx.obligation('C11.c', q + ':abs', ok, {'per_stream_value': norm(vals_[0])[:80] if vals_ else None})
        if not ok:
            ctx.violation('C11.c', q, 'per-stream SINR is not stored as abs(|u^H H v|^2 / (u^H B u))', fn.path, fn.lineno, operand='abs')
    fn = M.func(IA, 'IASolverBaseClass.calc_sum_capacity')
    ctx.instance('C11.c', fn.qualname)
    from .. import terms as T_
    try:
        ps = T_.path_terms(M, fn, opaque={'calc_SINR'})
    except T_.Unknown as e:
        ctx.error('C11.c: cannot normalise calc_sum_capacity (%s): cannot tell' % e)
    got = {t for _, t in ps}
    sinr = T_.Term.atom(('call', 'self.calc_SINR', ()))
    wants = set()
    for flat in ('np.hstack', 'np.concatenate'):
        x = T_.Term.atom(('call', flat, (sinr.key(),)))
        wants.add(T_.t_call('sum', [T_.t_call('log2', [T_.Term.const(1) + x])]))
    ok = len(got) == 1 and bool(got & wants)
    s = next(iter(got)).pretty() if got else ''
    ctx.obligation('C11.c', fn.qualname, ok, {'return': s[:90]})
    if not ok:
        ctx.violation('C11.c', fn.qualname, 'sum capacity is not sum(log2(1 + SINR)) of calc_SINR()', fn.path, fn.lineno, operand='capacity')


def synthetic():
    from ..overlay import Overlay
    src = ('import numpy as np\nclass C:\n'
           '    def good(self, H, F):\n        Q = np.zeros(3)\n        X = np.dot(H, F)\n        Q = Q + np.dot(X, X.conj().T)\n        return Q\n'
           '    def bad(self, H, F):\n        Q = np.zeros(3)\n        X = np.dot(H, F)\n        Q = Q + np.dot(X, X.T)\n        return Q\n')
    m = Model(Overlay({'pyphysim/syn.py': src}, '<syn>'))
    out = []
    for name, want in (('good', True), ('bad', False)):
        fn = m.func('pyphysim/syn.py', 'C.' + name)
        k = Kinds(fn)
        r = [n for n in walk_no_nested(fn.node) if isinstance(n, ast.Return)][0]
        out.append(('psd-kind-' + name, k.psd(r.value) == want))
    return out


MUTANTS = [
    Mutant('capacity-from-the-dB-sinr', IA, 'IASolverBaseClass.calc_sum_capacity',
           [('replace', 'self.calc_SINR()', 'self.calc_SINR_in_dB()')], r'C11\.[be]:IASolverBaseClass\.calc_sum_capacity'),
    Mutant('ia-first-part-reads-F', IA, 'IASolverBaseClass._calc_Bkl_cov_matrix_first_part',
           [('replace', 'Vj = self.full_F[j]', 'Vj = self.F[j]')], r'C11\.[ab]:IASolverBaseClass\._calc_Bkl_cov_matrix_first_part'),
    Mutant('ia-sinr-reads-W_H', IA, 'IASolverBaseClass._calc_SINR_k',
           [('replace', 'Uk_H = self.full_W_H[k]', 'Uk_H = self.W_H[k]')], r'C11\.a:IASolverBaseClass\._calc_SINR_k'),
    Mutant('q-impl-wrong-precoder-index', MU, 'MultiUserChannelMatrix._calc_Q_impl',
           [('replace', 'F_all_users[l]', 'F_all_users[k]')], r'C11\.b:MultiUserChannelMatrix\._calc_Q_impl'),
    Mutant('q-impl-includes-own-user', MU, 'MultiUserChannelMatrix._calc_Q_impl',
           [('replace', 'set(range(self.K)) - {k}', 'set(range(self.K))')], r'C11\.b:MultiUserChannelMatrix\._calc_Q_impl'),
    Mutant('first-part-excludes-own-user', IA, 'IASolverBaseClass._calc_Bkl_cov_matrix_first_part',
           [('replace', 'for j in range(self.K):', 'for j in set(range(self.K)) - {k}:')], r'C11\.b:IASolverBaseClass\._calc_Bkl_cov_matrix_first_part'),
    Mutant('bkl-second-minus-first', MU, 'MultiUserChannelMatrix._calc_Bkl_cov_matrix_all_l',
           [('replace', 'first_part - second_part', 'second_part - first_part')], r'C11\.b:MultiUserChannelMatrix\._calc_Bkl_cov_matrix_all_l'),
    Mutant('q-transpose-without-conjugate', MU, 'MultiUserChannelMatrix._calc_Q_impl',
           [('replace', 'Hkl_F.transpose().conjugate()', 'Hkl_F.transpose()')], r'C11\.c:MultiUserChannelMatrix\._calc_Q_impl'),
    Mutant('noise-added-inside-sum', MU, 'MultiUserChannelMatrix._calc_Bkl_cov_matrix_first_part',
           [('regex', r'\n    first_part = first_part \+ Rek', ''),
            ('regex', r'(first_part = first_part \+ np\.dot\(Hkj, np\.dot\(np\.dot\(Vj, Vj_H\), Hkj_H\)\))', r'\1 + Rek')],
           r'C11\.c:MultiUserChannelMatrix\._calc_Bkl_cov_matrix_first_part'),
    Mutant('sinr-without-abs', IA, 'IASolverBaseClass._calc_SINR_k',
           [('replace', 'SINR_k[l] = np.abs(SINR_kl)', 'SINR_k[l] = SINR_kl.real')], r'C11\.c:IASolverBaseClass\._calc_SINR_k'),
    Mutant('capacity-without-one', IA, 'IASolverBaseClass.calc_sum_capacity',
           [('replace', 'np.log2(1 + np.hstack', 'np.log2(np.hstack')], r'C11\.c:IASolverBaseClass\.calc_sum_capacity'),
    Mutant('benign-local-full_F', IA, 'IASolverBaseClass._calc_Bkl_cov_matrix_first_part',
           [('replace', 'Vj = self.full_F[j]', 'Vj = self.full_F[j] * 1')], None, benign=True),
    Mutant('benign-matmul-operator', MU, 'MultiUserChannelMatrix._calc_Q_impl',
           [('replace', 'np.dot(Hkl_F, Hkl_F.transpose().conjugate())', 'Hkl_F @ Hkl_F.conj().T')], None, benign=True),
]

ENGINES = ['model', 'codec']
TECHNIQUE = ('static analysis: accessor-discipline (layering) rule, summation-domain / index-pairing rule, PSD-kind inference over '
             'normalised expressions')
