"""C01 - modulation: rejection of bad input, table/M/K coherence (structural clauses)."""
from __future__ import annotations

import ast
from typing import List, Set

from ..dsf import analyse_class
from ..families import MODULATOR
from ..model import FuncInfo, is_self_attr, norm, walk_no_nested
from ..paths import ExcHierarchy, FlagInterp
from ..report import Ctx
from ..selftest import Mutant

FUND = 'pyphysim/modulators/fundamental.py'

EXPLANATION = (
    'Decides the rejection/coherence clauses of C01, not the round trip or the ML decision. C01.a: in every '
    'constructor of a modulator that takes a cardinality, every path to setConstellation passes a guard that reads '
    'the cardinality and whose failing edge raises (PSK: assert - inactive under python -O, noted; QAM: ValueError). '
    'C01.b: Modulator.modulate indexes the constellation table inside a try whose IndexError handler raises '
    'ValueError (out-of-range indexes never become symbols); every overriding modulate guards its input and raises '
    'ValueError. C01.c: symbols/_M/_K are written only by Modulator.__init__ and setConstellation, which derives M '
    'and K from the very table it stores (DSF: no public entry leaves them inconsistent). Not decided: '
    'demodulate(modulate(i)) == i, nearest-symbol decision, unit mean energy, distinct points (numeric).'
    ' General rules also applied here (see DESIGN 10.5): validate-before-commit (no `raise` reachable after the object was already changed in a public mutator); input immutability (no in-place modification of an array argument, alias- and view-aware). C01.i: no integer range / index arithmetic in a narrow (8/16-bit) dtype.'
    ' C01.j: modulate never subtracts from / negates a value built from the raw index array by integer arithmetic only (unsigned bit arrays wrap: found and repaired in BPSK.modulate, fix afba63b).')


def _raising_tests(fn: FuncInfo, names: Set[str]) -> Set[int]:
    """ids of test expressions (if/assert) that read one of `names` and have a branch that always raises."""
    out: Set[int] = set()

    def always_raises(body) -> bool:
        return bool(body) and isinstance(body[-1], ast.Raise)
    for n in walk_no_nested(fn.node):
        if isinstance(n, ast.If) and (always_raises(n.body) or always_raises(n.orelse)):
            if any(isinstance(x, ast.Name) and x.id in names for x in ast.walk(n.test)):
                out.add(id(n.test))
        if isinstance(n, ast.Assert) and any(isinstance(x, ast.Name) and x.id in names for x in ast.walk(n.test)):
            out.add(id(n.test))
    return out


def check(ctx: Ctx) -> None:
    M = ctx.model
    ctx.assume('assert statements are active (default interpreter configuration, as the property quantifies)')
    base = M.cls('Modulator')
    # ------------------------------------------------------------------ C01.a
    ctx.rule('C01.a', 'cardinality guard dominates setConstellation in constructors', floor=2)
    for c in M.subclasses(base):
        init = c.methods.get('__init__')
        if init is None:
            continue
        params = [p for p in init.params if p != 'self']
        card = [p for p in params if p in ('M', 'm', 'order', 'cardinality')]
        if not card:
            continue
        sn = init.self_name or 'self'
        rt = _raising_tests(init, set(card))
        # locals derived from M also count (power = math.log(M, 2))
        derived = set(card)
        for n in walk_no_nested(init.node):
            if isinstance(n, ast.Assign) and isinstance(n.targets[0], ast.Name) and \
                    any(isinstance(x, ast.Name) and x.id in derived for x in ast.walk(n.value)):
                derived.add(n.targets[0].id)
        rt |= _raising_tests(init, derived)
        it = FlagInterp(init, ExcHierarchy(M), test_rules=[(lambda t, rt=rt: id(t) in rt, ['checked'], ['checked'])],
                        call_rules=[(lambda c_: is_self_attr(c_.func, sn) == 'setConstellation', ['installed'])])
        it.run(FlagInterp.start())
        construct = '%s.__init__' % c.name
        ctx.instance('C01.a', construct)
        installs = [(n, st) for k, n, st in it.events if k == 'call']
        ok = bool(installs) and all(all('checked' in el for el in st) for _, st in installs)
        asserts_only = bool(rt) and all(isinstance(n, ast.Assert) for n in walk_no_nested(init.node)
                                        if isinstance(n, (ast.Assert, ast.If)) and id(n.test) in rt)
        ctx.obligation('C01.a', construct, ok, {'cardinality_param': card, 'guards': len(rt), 'install_sites': len(installs),
                                                'guard_is_assert_only': asserts_only})
        if asserts_only:
            ctx.note('%s: the cardinality guard is an assert (vanishes under python -O)' % construct)
        if not ok:
            ctx.violation('C01.a', construct, 'setConstellation is reachable without a raising guard on the cardinality %s: '
                          'an unsupported cardinality silently yields a constellation' % card, init.path, init.lineno,
                          operand='guard')
    # ------------------------------------------------------------------ C01.b
    ctx.rule('C01.b', 'out-of-range indexes become ValueError, never symbols', floor=2)
    fn = M.func(FUND, 'Modulator.modulate')
    ctx.instance('C01.b', 'Modulator.modulate')
    p = [x for x in fn.params if x != 'self'][0]
    ok = False
    why = 'no try around the table lookup'
    from ..astutil import expander as _expander0
    _ex0 = _expander0(fn)        # a local that only names the table (`constellation = self.symbols`) is looked through
    for t in [n for n in walk_no_nested(fn.node) if isinstance(n, ast.Try)]:
        looks = [n for s in t.body for n in ast.walk(s) if isinstance(n, ast.Subscript)
                 and is_self_attr(_ex0(n.value), fn.self_name or 'self') == 'symbols' and norm(n.slice) == p]
        if not looks:
            continue
        why = 'no IndexError handler raising ValueError'
        for h in t.handlers:
            names = [norm(e).split('.')[-1] for e in (h.type.elts if isinstance(h.type, ast.Tuple) else [h.type])] if h.type else ['BaseException']
            if any(nm in ('IndexError', 'LookupError', 'Exception', 'BaseException') for nm in names):
                raises = [n for s in h.body for n in ast.walk(s) if isinstance(n, ast.Raise) and n.exc is not None]
                if h.body and isinstance(h.body[-1], ast.Raise) and raises and \
                        norm(raises[-1].exc.func if isinstance(raises[-1].exc, ast.Call) else raises[-1].exc) == 'ValueError':
                    ok = True
    lookups_outside = [n for n in walk_no_nested(fn.node) if isinstance(n, ast.Subscript)
                       and is_self_attr(n.value, fn.self_name or 'self') == 'symbols']
    ctx.obligation('C01.b', 'Modulator.modulate', ok, {'table_lookups': len(lookups_outside), 'why': why if not ok else 'ok'})
    if not ok:
        ctx.violation('C01.b', 'Modulator.modulate', 'the constellation lookup by the input is not protected by an IndexError '
                      'handler that raises ValueError (%s)' % why, fn.path, fn.lineno, operand='handler')
    for c in M.subclasses(base):
        o = c.methods.get('modulate')
        if o is None:
            continue
        construct = '%s.modulate' % c.name
        ctx.instance('C01.b', construct)
        par = [x for x in o.params if x != 'self'][0]
        rt = set()
        from ..astutil import expander as _expander
        _ex = _expander(o)
        for n in walk_no_nested(o.node):
            if isinstance(n, ast.If) and n.body and isinstance(n.body[-1], ast.Raise) and \
                    any(isinstance(x, ast.Name) and x.id == par for x in ast.walk(_ex(n.test))):     # named masks are looked through
                r = n.body[-1]
                if r.exc is not None and norm(r.exc.func if isinstance(r.exc, ast.Call) else r.exc) == 'ValueError':
                    rt.add(id(n.test))
        it = FlagInterp(o, ExcHierarchy(M), test_rules=[(lambda t, rt=rt: id(t) in rt, ['checked'], ['checked'])])
        it.run(FlagInterp.start())
        ok = bool(it.exits) and all(all('checked' in el for el in st) for st, _ in it.exits)
        ctx.obligation('C01.b', construct, ok, {'value_error_guards': len(rt), 'returns': len(it.exits)})
        if not ok:
            ctx.violation('C01.b', construct, 'overrides modulate without a ValueError guard on the input dominating its returns',
                          o.path, o.lineno, operand='guard')
    # ------------------------------------------------------------------ C01.c
    ctx.rule('C01.c', 'symbols/_M/_K single writers and coherence (DSF)', floor=10)
    writers = {}
    for c in [base] + M.subclasses(base):
        for f in list(c.methods.values()) + list(c.setters.values()):
            for n in ast.walk(f.node):
                if isinstance(n, ast.Attribute) and isinstance(n.ctx, ast.Store) and is_self_attr(n, f.self_name or 'self') in ('symbols', '_M', '_K'):
                    writers.setdefault(n.attr, set()).add(f.qualname)
    for a in ('symbols', '_M', '_K'):
        construct = 'writers:' + a
        ctx.instance('C01.c', construct)
        ok = writers.get(a, set()) <= {'Modulator.__init__', 'Modulator.setConstellation'} and 'Modulator.setConstellation' in writers.get(a, set())
        ctx.obligation('C01.c', construct, ok, {'writers': sorted(writers.get(a, []))})
        if not ok:
            ctx.violation('C01.c', 'Modulator', 'attribute %s is written by %s; only __init__ and setConstellation may write the '
                          'table and its cardinality' % (a, sorted(writers.get(a, []))), FUND, base.node.lineno, operand=a)
    sc = M.func(FUND, 'Modulator.setConstellation')
    arg = [x for x in sc.params if x != 'self'][0]
    ctx.instance('C01.c', 'Modulator.setConstellation:same-argument')
    flows = {}
    loc = {}
    for n in walk_no_nested(sc.node):
        if isinstance(n, ast.Assign) and isinstance(n.targets[0], ast.Name):
            loc[n.targets[0].id] = n.value
    for n in walk_no_nested(sc.node):
        if isinstance(n, ast.Assign):
            for t in n.targets:
                a = is_self_attr(t, 'self')
                if a in ('symbols', '_M', '_K'):
                    names = {x.id for x in ast.walk(n.value) if isinstance(x, ast.Name)}
                    for nm in list(names):
                        if nm in loc:
                            names |= {x.id for x in ast.walk(loc[nm]) if isinstance(x, ast.Name)}
                    flows[a] = arg in names
    ok = flows == {'symbols': True, '_M': True, '_K': True}
    ctx.obligation('C01.c', 'Modulator.setConstellation:same-argument', ok, {'derived_from_argument': flows})
    if not ok:
        ctx.violation('C01.c', 'Modulator.setConstellation', 'table, M and K are not all derived from the same argument: %s' % flows,
                      sc.path, sc.lineno, operand='same-argument')
    for cname in MODULATOR.classes:
        analyse_class(ctx, 'C01.c', MODULATOR, cname)

    # ------------------------------------------------------------------ C01.e
    ctx.rule('C01.e', 'demodulate flattens its input in C order, the order in which `output.shape = shape` restores it', floor=1)
    dm = M.func(FUND, 'Modulator.demodulate')
    ctx.instance('C01.e', 'Modulator.demodulate')
    flats = [n for n in walk_no_nested(dm.node) if isinstance(n, ast.Call) and isinstance(n.func, ast.Attribute)
             and n.func.attr in ('flatten', 'ravel', 'reshape')] + \
            [n for n in walk_no_nested(dm.node) if isinstance(n, ast.Call) and norm(n.func) in ('np.ravel', 'np.reshape')]
    bad = []
    for n in flats:
        order = 'C'
        for k in n.keywords:
            if k.arg == 'order':
                order = k.value.value if isinstance(k.value, ast.Constant) else '?'
        if n.func.attr in ('flatten', 'ravel') and n.args and isinstance(n.args[0], ast.Constant):
            order = n.args[0].value
        if order != 'C':
            bad.append((norm(n)[:60], order))
    restores = [n for n in walk_no_nested(dm.node) if isinstance(n, ast.Assign) and isinstance(n.targets[0], ast.Attribute)
                and n.targets[0].attr == 'shape']
    ok = not bad and bool(flats)
    ctx.obligation('C01.e', 'Modulator.demodulate', ok, {'flattening_calls': [norm(n)[:50] for n in flats], 'non_C_order': bad,
                                                         'shape_restores': [norm(r) for r in restores]})
    if not ok:
        ctx.violation('C01.e', 'Modulator.demodulate', 'the received samples are flattened with memory order %s but the decisions are '
                      'put back with `.shape = shape` (C order): for inputs that are not C-contiguous (a transposed view, a Fortran '
                      'array) every decision lands at a permuted position' % bad, dm.path, dm.lineno, operand='order')
    from ..dsf import auto_memo_check
    ctx.rule('C01.d', 'no auto-discovered lazily filled cache of the classes in the anchored modules can be stale at the exit of a public method (dependencies = what the fill expression reads, incl. mutating calls on held sub-objects)', floor=4)
    auto_memo_check(ctx, 'C01.d', [FUND])
    from ..commit import check_family
    check_family(ctx, 'C01.f', ['Modulator'], floor=3)
    _check_detector_table_coupling(ctx)
    from ..idioms import check_input_immutability, public_api
    check_input_immutability(ctx, 'C01.g', public_api(ctx.model, [FUND], include={'modulate', 'demodulate', 'setConstellation'}), floor=3)
    from ..idioms import check_narrow_index_ranges
    check_narrow_index_ranges(ctx, 'C01.i', [FUND, 'pyphysim/util/conversion.py'], floor=3)
    # ------------------------------------------------------------------ C01.k
    ctx.rule('C01.k', 'a detector that broadcasts the symbol table against the samples (table[:, newaxis] - samples) does so on a FLATTENED '
                      'sample vector: against an input of two or more dimensions the table column pairs up with the rows of the input', floor=1)
    for cls in ctx.model.module(FUND).classes.values():
        dfn = cls.methods.get('demodulate')
        if dfn is None:
            continue
        ctx.instance('C01.k', dfn.qualname)
        par_ = [p_ for p_ in dfn.params if p_ not in ('self', 'cls')][:1]
        flat_locals = {n_.targets[0].id for n_ in walk_no_nested(dfn.node) if isinstance(n_, ast.Assign) and len(n_.targets) == 1
                       and isinstance(n_.targets[0], ast.Name) and isinstance(n_.value, ast.Call) and isinstance(n_.value.func, ast.Attribute)
                       and (n_.value.func.attr in ('flatten', 'ravel') or (n_.value.func.attr == 'reshape' and n_.value.args
                            and isinstance(n_.value.args[0], ast.UnaryOp) and norm(n_.value.args[0]) == '-1'))}
        hits_ = []
        for n_ in walk_no_nested(dfn.node):
            if isinstance(n_, ast.BinOp) and isinstance(n_.op, ast.Sub):
                for a_, b_ in ((n_.left, n_.right), (n_.right, n_.left)):
                    if isinstance(a_, ast.Subscript) and isinstance(a_.slice, ast.Tuple) and any(
                            (isinstance(i_, ast.Constant) and i_.value is None) or norm(i_) in ('np.newaxis', 'numpy.newaxis') for i_ in a_.slice.elts) \
                            and is_self_attr(a_.value, dfn.self_name or 'self') == 'symbols':
                        if isinstance(b_, ast.Name) and b_.id in par_ and b_.id not in flat_locals:
                            hits_.append(n_)
        ctx.obligation('C01.k', dfn.qualname, not hits_, {'flattened_locals': sorted(flat_locals), 'broadcasts_against_raw_input': [norm(h_)[:60] for h_ in hits_]},
                       nontrivial=any(isinstance(x_, ast.Subscript) and is_self_attr(x_.value, dfn.self_name or 'self') == 'symbols' for x_ in ast.walk(dfn.node)))
        for h_ in hits_[:1]:
            ctx.violation('C01.k', dfn.qualname, '`%s` broadcasts the (M, 1) symbol column against the input as it came: for an input with two or '
                          'more dimensions the decisions are wrong or of the wrong shape (an (M, N) input is compared row by row with the table)'
                          % norm(h_)[:60], dfn.path, h_.lineno, operand='unflattened-broadcast')
    # ------------------------------------------------------------------ C01.j
    from ..idioms import unsigned_wraps
    ctx.rule('C01.j', 'modulate never subtracts from / negates a value built from the raw index array by integer arithmetic only: indexes and '
                      'bits are commonly held in UNSIGNED dtypes (np.uint8), for which 1 - 2 * x wraps to 255 instead of -1', floor=2)
    M = ctx.model
    for cls in M.module(FUND).classes.values():
        fn = cls.methods.get('modulate')
        if fn is None:
            continue
        ctx.instance('C01.j', fn.qualname)
        idx = [p for p in fn.params if p not in ('self', 'cls')][:1]
        hits = list(unsigned_wraps(fn, idx))
        ctx.obligation('C01.j', fn.qualname, not hits, {'index_parameter': idx, 'subtractions_on_raw_indexes': [norm(h[0])[:50] for h in hits]})
        for node, p in hits[:1]:
            ctx.violation('C01.j', fn.qualname, '`%s` subtracts in the dtype of the raw index array `%s`: for an unsigned dtype (bits held as '
                          'np.uint8) the result wraps (1 - 2 * 1 == 255), so the emitted symbols are not constellation points and do not '
                          'demodulate to the input (convert to a signed type first)' % (norm(node)[:50], p), fn.path, node.lineno,
                          operand='unsigned-wrap')
    for fn, (node, bits, kind) in getattr(ctx, '_narrow_casts', []):
        ctx.error('cannot tell: %s casts `%s` to a %d-bit integer dtype; whether the values fit (bits, or indexes up to M-1) is not '
                  'decidable from the expression (%s:%d)' % (fn.qualname, norm(node)[:60], bits, fn.path, node.lineno))


def _check_detector_table_coupling(ctx: Ctx) -> None:
    """C01.h: a detector that does not consult the symbol table is only right while the table is the one its class built."""
    M = ctx.model
    ctx.rule('C01.h', 'a class whose resolved demodulate does not read the symbol table offers no public method that replaces the table '
                      '(otherwise detection no longer picks the nearest point of the emitted constellation after that call)', floor=4)
    base = M.cls('Modulator')
    setc = base.methods.get('setConstellation')
    if setc is None:
        ctx.error('C01.h: Modulator.setConstellation vanished')
    sn0 = setc.self_name or 'self'
    table = {n.attr for n in walk_no_nested(setc.node) if isinstance(n, ast.Attribute) and isinstance(n.ctx, ast.Store)
             and is_self_attr(n, sn0)} - {'_M', '_K'}
    if not table:
        ctx.error('C01.h: setConstellation stores no table attribute (idiom unknown)')

    def reads_table(cls, fn, seen):
        if fn is None or id(fn.node) in seen:
            return False
        seen.add(id(fn.node))
        sn = fn.self_name
        if sn is None:
            return False
        for n in ast.walk(fn.node):
            a = is_self_attr(n, sn) if isinstance(n, ast.Attribute) else None
            if a in table and isinstance(n.ctx, ast.Load):
                return True
            if isinstance(n, ast.Call) and isinstance(n.func, ast.Attribute):
                h = is_self_attr(n.func, sn)
                if h and reads_table(cls, M.lookup_method(cls, h), seen):
                    return True
                if isinstance(n.func.value, ast.Call) and norm(n.func.value.func) == 'super' and \
                        reads_table(cls, M.lookup_method(cls, n.func.attr, after=fn.cls), seen):
                    return True
        return False

    def replaces_table(cls, fn, seen):
        if fn is None or id(fn.node) in seen:
            return False
        seen.add(id(fn.node))
        sn = fn.self_name
        if sn is None:
            return False
        for n in ast.walk(fn.node):
            if isinstance(n, ast.Attribute) and isinstance(n.ctx, ast.Store) and is_self_attr(n, sn) in table:
                return True
            if isinstance(n, ast.Call) and isinstance(n.func, ast.Attribute):
                h = is_self_attr(n.func, sn)
                if h and (h == 'setConstellation' or replaces_table(cls, M.lookup_method(cls, h), seen)):
                    return True
        return False

    for cls in [base] + M.subclasses(base):
        det = M.lookup_method(cls, 'demodulate')
        construct = cls.name
        ctx.instance('C01.h', construct)
        if det is None:
            ctx.error('C01.h: %s has no demodulate' % cls.name)
        uses = reads_table(cls, det, set())
        mutators = []
        if not uses:
            names = set()
            for k in M.mro(cls):
                names |= {n for n in k.methods if not n.startswith('_') and n != 'setConstellation'}
            for nme in sorted(names):
                f = M.lookup_method(cls, nme)
                if f is not None and replaces_table(cls, f, set()):
                    mutators.append(f.qualname)
        ok = uses or not mutators
        ctx.obligation('C01.h', construct, ok, {'detector': det.qualname, 'detector_reads_table': uses, 'public_table_mutators': mutators},
                       nontrivial=not uses)
        if not ok:
            ctx.violation('C01.h', det.qualname, 'the detector of %s does not read the symbol table (%s) but %s can replace that table: after '
                          'such a call demodulate no longer returns the index of the nearest constellation point'
                          % (cls.name, sorted(table), mutators), det.path, det.lineno, operand='table-coupling:' + cls.name)


MUTANTS = [
    Mutant('revert-fix-afba63b-bpsk-unsigned-bits', FUND, 'BPSK.modulate',
           [('replace', '1 - 2 * np.asarray(inputData).astype(int)', '1 - 2 * inputData')], r'C01\.j:BPSK\.modulate:unsigned-wrap'),
    Mutant('benign-bpsk-float-promotion', FUND, 'BPSK.modulate',
           [('replace', '1 - 2 * np.asarray(inputData).astype(int)', '1 - 2.0 * inputData')], None, benign=True),
    Mutant('gray-index-range-in-uint8', FUND, 'QAM._calculateGrayMappingIndexQAM',
           [('replace', 'np.arange(0, L, dtype=int)', 'np.arange(0, L, dtype=np.uint8)')], r'C01\.i:QAM\._calculateGrayMappingIndexQAM'),
    Mutant('benign-gray-index-range-in-int64', FUND, 'QAM._calculateGrayMappingIndexQAM',
           [('replace', 'np.arange(0, L, dtype=int)', 'np.arange(0, L, dtype=np.int64)')], None, benign=True),
    Mutant('delete-qam-guard', FUND, 'QAM.__init__', [('regex', r'    if power % 2 != 0 or 2 \*\* power != M:\n        raise ValueError\([^\n]*\)\n', '')],
           r'C01\.a:QAM\.__init__'),
    Mutant('psk-guard-after-install', FUND, 'PSK.__init__',
           [('regex', r'(    assert 2 \*\* math\.log\(M, 2\) == M\n)(.*)(    self\.setConstellation\(symbols\)\n?)', r'\2\3\n\1')],
           r'C01\.a:PSK\.__init__'),
    Mutant('catch-KeyError', FUND, 'Modulator.modulate', [('replace', 'except IndexError:', 'except KeyError:')], r'C01\.b:Modulator\.modulate'),
    Mutant('handler-raises-TypeError', FUND, 'Modulator.modulate', [('replace', 'raise ValueError(', 'raise TypeError(')], r'C01\.b:Modulator\.modulate'),
    Mutant('bpsk-no-input-guard', FUND, 'BPSK.modulate', [('regex', r'    if np\.any\(inputData > 1\):\n        raise ValueError\([^\n]*\)\n', '')], r'C01\.b:BPSK\.modulate'),
    Mutant('phase-offset-writes-symbols-directly', FUND, 'PSK.setPhaseOffset',
           [('regex', r'self\.setConstellation\((.*)\)$', r'self.symbols = \1')], r'C01\.c:'),
    Mutant('demodulate-ravel-K', FUND, 'Modulator.demodulate', [('replace', 'receivedData.flatten()', "receivedData.ravel(order='K')")],
           r'C01\.e:Modulator\.demodulate'),
    Mutant('benign-demodulate-ravel', FUND, 'Modulator.demodulate', [('replace', 'receivedData.flatten()', 'receivedData.ravel()')], None, benign=True),
    Mutant('benign-psk-assert-to-raise', FUND, 'PSK.__init__',
           [('replace', 'assert 2 ** math.log(M, 2) == M', 'if 2 ** math.log(M, 2) != M:\n        raise ValueError("M must be a power of 2")')],
           None, benign=True),
]

ENGINES = ['model', 'paths', 'dsf']
TECHNIQUE = 'static analysis: guard-dominance path rules, handler discipline, who-may-write + derived-state freshness'
