"""C04 - MIMO schemes: shape conformance for every Nr >= Nt and layout pairing (structural clauses)."""
from __future__ import annotations

import ast
from typing import Any, Dict, List, Optional, Tuple

from ..model import FuncInfo, Model, norm, walk_no_nested
from ..report import Ctx
from ..selftest import Mutant
from ..shapes import Arr, Dim, Interp, Scalar, ShapeUnknown, Tup

MI = 'pyphysim/mimo/mimo.py'
MISC = 'pyphysim/util/misc.py'

EXPLANATION = (
    'Decides two structural clauses of C04 - necessary conditions of "decoding the noise-free channel output of the '
    'encoded data returns the data" - not the numeric recovery. C04.a (symbolic shape conformance): an abstract '
    'interpreter runs _calc_precoder, _calc_receive_filter, encode, the channel product and decode of Blast, MRC, '
    'SVDMimo, GMDMimo (channel Nr x Nt, Nr >= Nt symbolic, data of Nt*n symbols) and MRT (1 x Nt) over symbolic '
    'array shapes (svd with its full_matrices convention, pinv, solve, diag, eye, dot/@, transpose, reshape with '
    '-1, broadcasting; util.misc.gmd through a summary read from its own allocations). Every product / solve / '
    'elementwise operation must be conformable for ALL Nr >= Nt and decode(H encode(x)) must map (Nt*n,) to '
    '(Nt*n,): an operation whose operand dimensions are different monomials (e.g. Nt vs Nr) raises for every '
    'rectangular channel. C04.b: within each scheme the memory order (order=) of the reshape in encode equals the '
    'one in decode. C04.d (matrix terms, E10): the bodies of encode / decode / _calc_precoder / _calc_receive_filter / '
    '_calcZeroForceFilter / _calcMMSEFilter are extracted as terms of a non-commutative algebra with adjoint, transpose, '
    'conjugate, inverse and pseudo-inverse and normalised under the contracts of svd (orthonormal factors, H = U D V^H), '
    'of the GMD (H = Q R P^H) and of pinv on full-column-rank matrices; proven for every channel at once: '
    'decode(H encode(d)) = d for Blast/MRC/SVDMimo/GMDMimo (layout included), W^H W = I/Nt, pinv(H) H = I, '
    '(H^H H + s I) W_mmse = H^H, W_mmse(s=0) H = I, and that Blast selects MMSE exactly when noise_var > 0. Alamouti and '
    'MRT (elementwise code) are not interpreted. Not decided: whether util.misc.gmd honours the GMD contract, '
    'floating-point error, conditioning.'
    ' General rules also applied here (see DESIGN 10.5): validate-before-commit (no `raise` reachable after the object was already changed in a public mutator); input immutability (no in-place modification of an array argument, alias- and view-aware). C04.h: the effective singular-value tolerance of every gmd call of the library is 0 (scale invariance). C04.n: the no-rotation flag of the GMD sweep is set whenever the two diagonal entries it rotates are equal (all weak orderings enumerated; no 0/0 for identity / scaled unitary / permutation channels).')

SCHEMES = [  # class, channel shape, data size, expected encode shape, received shape
    ('Blast', ('Nr', 'Nt')), ('MRC', ('Nr', 'Nt')), ('SVDMimo', ('Nr', 'Nt')), ('GMDMimo', ('Nr', 'Nt')),
]


def gmd_summary(ctx: Ctx, it: Interp):
    """Shape summary of util.misc.gmd read from its own allocations (Q = U.copy(), R = zeros([m, n]), P = V_H^H)."""
    g = ctx.model.func(MISC, 'gmd')
    rets = [n for n in walk_no_nested(g.node) if isinstance(n, ast.Return) and isinstance(n.value, ast.Tuple)]
    # several returns are fine when they all return the same tuple of locals (an early return of a trivial case)
    if not rets or len({norm(r.value) for r in rets}) != 1 or not all(isinstance(e, ast.Name) for e in rets[0].value.elts) \
            or any(isinstance(n, ast.Return) and not isinstance(n.value, ast.Tuple) for n in walk_no_nested(g.node)):
        ctx.error('C04: gmd no longer returns a tuple of locals (summary cannot be inferred)')
    names = [e.id for e in rets[0].value.elts]

    def summary(args: List[Any], kwargs: Dict[str, Any], node: ast.AST, fn: FuncInfo) -> Any:
        env: Dict[str, Any] = dict(zip(g.params, args))
        first: Dict[str, Any] = {}
        for s in g.node.body:
            if isinstance(s, ast.Assign) and len(s.targets) == 1 and isinstance(s.targets[0], ast.Name):
                try:
                    v = it.ev(s.value, env, g)
                except ShapeUnknown:
                    continue
                env[s.targets[0].id] = v
                first.setdefault(s.targets[0].id, v)
        if not all(isinstance(first.get(n), Arr) for n in names):
            raise ShapeUnknown('gmd summary: allocations of %s not recognised' % names)
        return Tup([first[n] for n in names])
    return summary


def run_scheme(ctx: Ctx, cname: str, hshape: Tuple, order=('Nr', 'Nt')):
    M = ctx.model
    cls = M.cls(cname)
    it = Interp(M, order)
    it.summaries['gmd'] = gmd_summary(ctx, it)
    it.self_class = cls
    H = Arr([Dim.of(d) for d in hshape])
    it.self_attrs = {'_channel': H, '_noise_var': Scalar()}
    Nr, Nt = H.shape
    n = Dim.of('n')
    stages: Dict[str, Any] = {}
    self_val = object()

    def stage(name: str, f):
        try:
            stages[name] = f()
        except ShapeUnknown as e:
            stages[name] = 'unknown: %s' % e

    pre = M.lookup_method(cls, '_calc_precoder')
    rcv = M.lookup_method(cls, '_calc_receive_filter')
    enc = M.lookup_method(cls, 'encode')
    dec = M.lookup_method(cls, 'decode')
    if None in (pre, rcv, enc, dec):
        ctx.error('C04: %s lacks one of _calc_precoder/_calc_receive_filter/encode/decode' % cname)
    stage('precoder', lambda: it.call_function(pre, [H], {}))
    stage('receive_filter', lambda: it.call_function(rcv, [H, Scalar()], {}))
    stage('receive_filter_no_noise', lambda: it.call_function(rcv, [H, None], {}))
    layers = Nt
    data = Arr([layers * n])
    stage('encoded', lambda: it.call_function(enc, [data], {}, self_val))
    if isinstance(stages.get('encoded'), Arr):
        stage('received', lambda: it.matmul(H, stages['encoded'], enc, enc.node))
    if isinstance(stages.get('received'), Arr):
        stage('decoded', lambda: it.call_function(dec, [stages['received']], {}, self_val))
    expect = {'precoder': Arr([Nt, layers]), 'receive_filter': Arr([layers, Nr]), 'receive_filter_no_noise': Arr([layers, Nr]),
              'encoded': Arr([Nt, n]), 'received': Arr([Nr, n]), 'decoded': data}
    return it, stages, expect, {'precoder': pre, 'receive_filter': rcv, 'receive_filter_no_noise': rcv, 'encoded': enc,
                                'received': enc, 'decoded': dec}


def check(ctx: Ctx) -> None:
    M = ctx.model
    ctx.assume('numpy shape semantics as modelled in sa/shapes.py (svd full_matrices default True; pinv transposes; '
               'solve returns the right-hand-side shape; 2-D @ 2-D); Nr >= Nt, so min(Nr, Nt) = Nt; data length is a '
               'multiple of the number of layers')
    ctx.rule('C04.a', 'every product/solve/elementwise op of precoder, filter, encode, channel, decode is conformable for all Nr >= Nt '
                      'and the chain maps (Nt*n,) to (Nt*n,)', floor=20)
    runs = [(c, s, ('Nr', 'Nt')) for c, s in SCHEMES] + [('MRT', (1, 'Nt'), None)]
    cannot_tell: List[str] = []
    for cname, hshape, order in runs:
        it, stages, expect, owners = run_scheme(ctx, cname, hshape, order)
        if cname == 'MRT':
            n = Dim.of('n')
            expect.update({'precoder': Arr([Dim.of('Nt'), 1]), 'encoded': Arr([Dim.of('Nt'), n]), 'received': Arr([1, n]),
                           'decoded': Arr([n])})
            expect.pop('receive_filter')
            expect.pop('receive_filter_no_noise')
            # MRT: one layer, data of n symbols
            M_ = ctx.model
            cls = M_.cls('MRT')
            it2 = Interp(M_, None)
            it2.self_class = cls
            H = Arr([1, Dim.of('Nt')])
            it2.self_attrs = {'_channel': H}
            st: Dict[str, Any] = {}
            try:
                st['precoder'] = it2.call_function(M_.lookup_method(cls, '_calc_precoder'), [H], {})
                st['encoded'] = it2.call_function(M_.lookup_method(cls, 'encode'), [Arr([n])], {}, object())
                st['received'] = it2.matmul(H, st['encoded'], M_.lookup_method(cls, 'encode'), M_.lookup_method(cls, 'encode').node)
                st['decoded'] = it2.call_function(M_.lookup_method(cls, 'decode'), [st['received']], {}, object())
            except ShapeUnknown as e:
                st['unknown'] = 'unknown: %s' % e
            it, stages = it2, st
        unknown = {k: v for k, v in stages.items() if isinstance(v, str)}
        if unknown:
            cannot_tell.append('%s: %s' % (cname, unknown))
            continue
        for name, want in expect.items():
            construct = '%s:%s' % (cname, name)
            ctx.instance('C04.a', construct)
            got = stages.get(name)
            mine = [p for p in it.problems if True]
            ok = isinstance(got, (Arr, Scalar)) and (got == want or (name.startswith('receive_filter') and isinstance(got, Scalar)))
            ctx.obligation('C04.a', construct, ok, {'shape': repr(got), 'expected': repr(want)})
            if not ok and not it.problems:
                fn = owners.get(name) or owners['decoded']
                ctx.violation('C04.a', fn.qualname, '%s of %s has shape %r, the scheme needs %r for a %s channel'
                              % (name, cname, got, want, 'x'.join(str(d) for d in hshape)), fn.path, fn.lineno, operand=name)
        ctx.stats.setdefault('products_checked', 0)
        ctx.stats['products_checked'] += it.n_products
        ctx.stats.setdefault('shape_operations', 0)
        ctx.stats['shape_operations'] += it.n_ops
        seen = set()
        for p in it.problems:
            key = (p.fn.qualname, p.line)
            if key in seen:
                continue
            seen.add(key)
            ctx.obligation('C04.a', '%s@%s' % (p.fn.qualname, cname), False, {'problem': p.what})
            ctx.violation('C04.a', p.fn.qualname, '%s (receiver class %s, channel %s, statement `%s`): decode/encode raise for '
                          'every channel with more receive than transmit antennas'
                          % (p.what, cname, 'x'.join(str(d) for d in hshape), norm(p.node)[:70] if not isinstance(p.node, ast.FunctionDef) else p.fn.name),
                          p.fn.path, p.line, operand='conformability')
    # ------------------------------------------------------------------ C04.b
    ctx.rule('C04.b', 'reshape memory order of encode equals the one of decode in every scheme', floor=3)
    for cname in ('Blast', 'MRC', 'SVDMimo', 'GMDMimo'):
        cls = M.cls(cname)
        enc, dec = M.lookup_method(cls, 'encode'), M.lookup_method(cls, 'decode')

        def orders(fn: FuncInfo):
            out = []
            for n in walk_no_nested(fn.node):
                if isinstance(n, ast.Call) and isinstance(n.func, ast.Attribute) and n.func.attr in ('reshape', 'flatten', 'ravel'):
                    o = 'C'
                    for k in n.keywords:
                        if k.arg == 'order' and isinstance(k.value, ast.Constant):
                            o = k.value.value
                    np_form = isinstance(n.func.value, ast.Name) and n.func.value.id in ('np', 'numpy')
                    if n.func.attr in ('flatten', 'ravel') and not np_form and n.args and isinstance(n.args[0], ast.Constant):
                        o = n.args[0].value
                    # function forms with the order given positionally: np.reshape(a, shape, order), np.ravel(a, order)
                    pos = 2 if n.func.attr == 'reshape' else 1
                    if np_form and len(n.args) > pos and isinstance(n.args[pos], ast.Constant) and isinstance(n.args[pos].value, str):
                        o = n.args[pos].value
                    out.append(o)
            return out
        eo, do = orders(enc), orders(dec)
        construct = '%s:order' % cname
        ctx.instance('C04.b', construct)
        ok = bool(eo) and bool(do) and set(eo) == set(do) and len(set(eo)) == 1
        ctx.obligation('C04.b', construct, ok, {'encode': eo, 'decode': do, 'encode_defined_in': enc.qualname, 'decode_defined_in': dec.qualname})
        if not ok:
            ctx.violation('C04.b', dec.qualname, 'encode of %s lays the symbols out with order %s but decode reads them back with order '
                          '%s: the decoded stream is a permutation of the data' % (cname, eo, do), dec.path, dec.lineno, operand='order:' + cname)

    from ..commit import check_family
    check_family(ctx, 'C04.e', ['MimoBase'], floor=7)
    from ..idioms import check_input_immutability, public_api
    check_input_immutability(ctx, 'C04.f', public_api(ctx.model, [MI], include={'encode', 'decode', 'set_channel_matrix'}), floor=10)
    # the algebraic extraction may have to answer "cannot tell"; the definite rules below must still be evaluated first
    from ..overlay import AnalysisError
    deferred = None
    try:
        _check_algebra(ctx)
    except AnalysisError as e:
        deferred = e
    from ..dsf import auto_memo_check
    ctx.rule('C04.c', 'no auto-discovered lazily filled cache of the classes in the anchored modules can be stale at the exit of a public method (dependencies = what the fill expression reads, incl. mutating calls on held sub-objects)', floor=6)
    auto_memo_check(ctx, 'C04.c', [MI])
    from .c20 import check_gmd_bookkeeping
    check_gmd_bookkeeping(ctx, 'C04.g')
    from .c20 import check_gmd_rotation_guard
    check_gmd_rotation_guard(ctx, 'C04.n')
    from .c20 import check_gmd_threshold
    check_gmd_threshold(ctx, 'C04.h', [MI])
    from ..idioms import check_accumulators_initialised, check_per_iteration_leaks
    check_accumulators_initialised(ctx, 'C04.i', [MI, 'pyphysim/util/misc.py'], floor=2)
    check_per_iteration_leaks(ctx, 'C04.j', [MI, 'pyphysim/util/misc.py'], floor=1)
    from ..idioms import check_no_self_normalisation
    check_no_self_normalisation(ctx, 'C04.k', [MI], floor=30)
    from ..idioms import check_mean_counts
    check_mean_counts(ctx, 'C04.l', [MI, 'pyphysim/util/misc.py'], floor=30)
    from ..idioms import check_constructor_uses_setter
    check_constructor_uses_setter(ctx, 'C04.m', [MI], floor=3)
    if deferred is not None:
        raise deferred
    if cannot_tell:
        if not ctx.violations:
            ctx.error('C04.a: shape interpreter cannot tell for ' + '; '.join(cannot_tell))
        ctx.note('C04.a could not be decided for: ' + '; '.join(cannot_tell))


def _check_algebra(ctx: Ctx) -> None:
    """C04.d: the linear-algebra identities of C04 as identities of MATRIX TERMS (E10), for every channel at once."""
    from .. import matterms as X
    from .. import terms as T
    M = ctx.model
    ctx.rule('C04.d', 'round trip decode(H encode(d)) = d, precoder energy W^H W = I/Nt, ZF/MMSE defining equations and the '
                      'MMSE -> ZF limit, proven as identities of matrix terms under the SVD / GMD / pinv contracts', floor=12)
    ctx.assume('exact arithmetic; H has full column rank (pinv(H) H = I, H^H H invertible) and Nr >= Nt; numpy svd returns '
               'orthonormal U columns / unitary V^H with H = U diag(S) V^H; util.misc.gmd honours its contract '
               'U diag(S) V^H = Q R P^H with orthonormal Q and unitary P (whether it does is numeric and not decided); '
               'scalar coefficients are real')
    H = X.MT.sym('H')
    Nt = T.Term.sym('dim1[H]')
    for cname in ('Blast', 'MRC', 'SVDMimo', 'GMDMimo'):
        cls = M.cls(cname)
        enc, dec = M.lookup_method(cls, 'encode'), M.lookup_method(cls, 'decode')
        pre = M.lookup_method(cls, '_calc_precoder')
        # ---- round trip
        construct = '%s:round-trip' % cname
        ctx.instance('C04.d', construct)
        cx = X.Ctx()
        it = X.MatInterp(M, cx, cls, assume={'_noise_var': 'zero'})
        it.self_attrs['_channel'] = X.Val('mat', H)
        try:
            x = it.call_function(enc, [X.Val('vecsym', 'd')], {})
            if x.kind != 'mat':
                raise X.Unknown('encode returns a %s' % x.kind)
            z = it.call_function(dec, [X.Val('mat', X.mul(H, x.v, cx))], {})
            if z.kind != 'vec':
                raise X.Unknown('decode does not return a flattened matrix (%s)' % z.kind)
            ok, l, r = X.proves(z.v, X.MT.sym('mat_%s[d]' % z.extra), cx)
        except X.Unknown as e:
            ctx.error('C04.d: cannot extract the matrix terms of %s (%s): cannot tell' % (cname, e))
        ctx.obligation('C04.d', construct, ok, {'decode_of_channel_of_encode': l.pretty(), 'expected': r.pretty(),
                                                'contracts_used': sorted(set(cx.notes)), 'functions_interpreted': sorted(set(it.calls))})
        if not ok:
            ctx.violation('C04.d', dec.qualname, 'decode(H encode(d)) of %s normalises to `%s`, not to the data `%s`: the noise-free round '
                          'trip does not return the data for a generic full-rank channel' % (cname, l.pretty(), r.pretty()),
                          dec.path, dec.lineno, operand='round-trip:' + cname)
        # ---- precoder energy
        construct = '%s:energy' % cname
        ctx.instance('C04.d', construct)
        cx = X.Ctx()
        it = X.MatInterp(M, cx, cls)
        try:
            w = it.call_function(pre, [X.Val('mat', H)], {})
            if w.kind != 'mat':
                raise X.Unknown('precoder is a %s' % w.kind)
            ok, l, r = X.proves(X.mul(X.adjoint(w.v, cx), w.v, cx), X.MT.identity(T.t_pow(Nt, T.Term.const(-1))), cx)
        except X.Unknown as e:
            ctx.error('C04.d: cannot extract the precoder of %s (%s): cannot tell' % (cname, e))
        ctx.obligation('C04.d', construct, ok, {'W^H W': l.pretty(), 'expected': r.pretty()})
        if not ok:
            ctx.violation('C04.d', pre.qualname, 'the precoder of %s has W^H W = `%s`, not I/Nt: encoding changes the average transmitted '
                          'energy per channel use' % (cname, l.pretty()), pre.path, pre.lineno, operand='energy:' + cname)
    # ---- filters
    base = M.cls('MimoBase')
    zf, mm = M.lookup_method(base, '_calcZeroForceFilter'), M.lookup_method(base, '_calcMMSEFilter')
    cx = X.Ctx()
    it = X.MatInterp(M, cx, base)
    nv = T.Term.sym('noise_var')
    HH = X.adjoint(H, cx)
    G = X.mul(HH, H, cx)
    try:
        wz = it.call_function(zf, [X.Val('mat', H)], {})
        wm = it.call_function(mm, [X.Val('mat', H), X.Val('scal', nv, 'pos')], {})
        w0 = it.call_function(mm, [X.Val('mat', H), X.Val('scal', T.Term.const(0), 'zero')], {})
        if 'mat' != wz.kind or 'mat' != wm.kind or 'mat' != w0.kind:
            raise X.Unknown('a filter is not a matrix')
    except X.Unknown as e:
        ctx.error('C04.d: cannot extract the ZF/MMSE filters (%s): cannot tell' % e)
    eqs = [
        ('MimoBase._calcZeroForceFilter:W H = I', zf, X.mul(wz.v, H, cx), X.MT.identity(), 'the zero-forcing filter is not a left inverse of the channel'),
        ('MimoBase._calcMMSEFilter:(H^H H + s I) W = H^H', mm, X.mul(X.add(G, X.MT.identity(nv)), wm.v, cx), HH,
         'the MMSE filter does not solve its defining equation (H^H H + noise_var I) W = H^H'),
        ('MimoBase._calcMMSEFilter:noise -> 0 gives a left inverse', mm, X.mul(w0.v, H, cx), X.MT.identity(),
         'the MMSE filter does not tend to the zero-forcing one as the noise vanishes'),
    ]
    for construct, fn, lhs, rhs, why in eqs:
        ctx.instance('C04.d', construct)
        ok, l, r = X.proves(lhs, rhs, cx)
        ctx.obligation('C04.d', construct, ok, {'lhs': l.pretty(), 'rhs': r.pretty()})
        if not ok:
            ctx.violation('C04.d', fn.qualname, '%s: `%s` != `%s`' % (why, l.pretty(), r.pretty()), fn.path, fn.lineno,
                          operand=construct.split(':', 1)[1])
    # ---- the receive filter of Blast selects MMSE exactly when there is noise
    bl = M.cls('Blast')
    rf = M.lookup_method(bl, '_calc_receive_filter')
    for state, want in (('zero', X.mul(wz.v, X.MT.identity(), cx)), ('pos', wm.v), ('none', X.mul(wz.v, X.MT.identity(), cx))):
        construct = 'Blast._calc_receive_filter:noise_var %s' % state
        ctx.instance('C04.d', construct)
        cx2 = X.Ctx()
        it2 = X.MatInterp(M, cx2, bl)
        arg = X.Val('none') if state == 'none' else X.Val('scal', T.Term.const(0) if state == 'zero' else nv, state)
        try:
            g = it2.call_function(rf, [X.Val('mat', H), arg], {})
        except X.Unknown as e:
            ctx.error('C04.d: cannot extract Blast._calc_receive_filter for noise_var %s (%s): cannot tell' % (state, e))
        sq = T.t_pow(Nt, T.Term.const(T.Fraction(1, 2)))
        ok = g.kind == 'mat' and g.v == X.scale(want, sq)
        ctx.obligation('C04.d', construct, ok, {'filter': g.v.pretty() if g.kind == 'mat' else g.kind, 'expected': X.scale(want, sq).pretty()})
        if not ok:
            ctx.violation('C04.d', rf.qualname, 'for noise_var %s the receive filter is `%s`, expected sqrt(Nt) x `%s`'
                          % (state, g.v.pretty() if g.kind == 'mat' else g.kind, want.pretty()), rf.path, rf.lineno,
                          operand='filter-selection:' + state)


def synthetic():
    from ..overlay import Overlay
    src = ('import numpy as np\nclass S:\n'
           '    @staticmethod\n    def bad(channel):\n        U, S_, V_H = np.linalg.svd(channel)\n        return np.diag(1.0 / S_).dot(U.conj().T)\n'
           '    @staticmethod\n    def good(channel):\n        U, S_, V_H = np.linalg.svd(channel, full_matrices=False)\n        return np.diag(1.0 / S_).dot(U.conj().T)\n')
    m = Model(Overlay({'pyphysim/syn.py': src}, '<syn>'))
    out = []
    for name, nprob in (('bad', 1), ('good', 0)):
        it = Interp(m)
        it.call_function(m.func('pyphysim/syn.py', 'S.' + name), [Arr([Dim.of('Nr'), Dim.of('Nt')])], {})
        out.append(('svd-filter-' + name, len(it.problems) == nprob))
    return out


MUTANTS = [
    Mutant('phase-by-self-normalisation', MI, 'MRT._calc_precoder',
           [('replace', 'np.exp(-1j * np.angle(channel)).T', '(channel.conj() / np.abs(channel)).T')], r'C04\.k:MRT\._calc_precoder:z-over-abs-z'),
    Mutant('gmd-strict-no-rotation-test', 'pyphysim/util/misc.py', 'gmd', [('replace', 'if d[i] >= sigma_bar:', 'if d[i] > sigma_bar:')], r'C04\.n:gmd'),
    Mutant('geometric-mean-over-all-singular-values', 'pyphysim/util/misc.py', 'gmd',
           [('replace', 'sigma_bar = np.prod(S[0:p]) ** (1.0 / p)', 'sigma_bar = math.exp(np.sum(np.log(S[0:p])) / S.size)')], r'C04\.l:gmd:count:S'),
    Mutant('gmd-absolute-tolerance-default', 'pyphysim/util/misc.py', 'gmd',
           [('replace', 'tol: float=0.0', 'tol: float=1e-06')], r'C04\.h:GMDMimo\._calc_(precoder|receive_filter):gmd-tolerance'),
    Mutant('benign-gmd-tolerance-int-zero', 'pyphysim/util/misc.py', 'gmd',
           [('replace', 'tol: float=0.0', 'tol: float=0')], None, benign=True),
    Mutant('alamouti-stores-before-check', MI, 'Alamouti.set_channel_matrix',
           [('regex', r'(        _, Nt = channel\.shape\n)', r'\1        super().set_channel_matrix(channel)\n')], r'C04\.e:Alamouti\.set_channel_matrix'),
    Mutant('blast-noise-var-stored-before-check', MI, 'Blast.set_noise_var',
           [('regex', r'(    if noise_var is None:)', r'    self._noise_var = noise_var\n\1')], r'C04\.e:Blast\.set_noise_var'),
    Mutant('revert-fix-svd-full-matrices', MI, 'SVDMimo._calc_receive_filter',
           [('regex', r'np\.linalg\.svd\(channel, full_matrices=False\)', 'np.linalg.svd(channel)')], r'C04\.a:SVDMimo\._calc_receive_filter'),
    Mutant('mmse-eye-Nr', MI, 'MimoBase._calcMMSEFilter', [('replace', 'Nt = H.shape[1]', 'Nt = H.shape[0]')], r'C04\.a:MimoBase\._calcMMSEFilter'),
    Mutant('blast-precoder-eye-Nr', MI, 'Blast._calc_precoder', [('replace', 'Nt = channel.shape[1]', 'Nt = channel.shape[0]')], r'C04\.a:Blast'),
    Mutant('zf-without-pinv', MI, 'MimoBase._calcZeroForceFilter', [('replace', 'np.linalg.pinv(channel)', 'channel.conj()')], r'C04\.a:'),
    Mutant('blast-decode-C-order', MI, 'Blast.decode', [('replace', "reshape(-1, order='F')", 'reshape(-1)')], r'C04\.b:Blast\.decode'),
    Mutant('svd-encode-F-order', MI, 'SVDMimo.encode', [('replace', 'transmit_data.reshape(self.Nt, -1)', "transmit_data.reshape(self.Nt, -1, order='F')")],
           r'C04\.b:SVDMimo\.decode'),
    Mutant('svd-filter-transpose-without-conj', MI, 'SVDMimo._calc_receive_filter', [('replace', 'U.conj().T', 'U.T')],
           r'C04\.d:SVDMimo\.decode:round-trip'),
    Mutant('svd-precoder-VH-instead-of-V', MI, 'SVDMimo._calc_precoder', [('replace', 'V_H.conj().T / math.sqrt(Nt)', 'V_H / math.sqrt(Nt)')],
           r'C04\.d:SVDMimo\.decode:round-trip'),
    Mutant('blast-precoder-not-normalised', MI, 'Blast._calc_precoder', [('replace', 'np.eye(Nt) / math.sqrt(Nt)', 'np.eye(Nt)')],
           r'C04\.d:Blast\._calc_precoder:energy'),
    Mutant('blast-encode-no-power-split', MI, 'Blast.encode', [('regex', r' / math\.sqrt\(self\.Nt\)', '')], r'C04\.d:Blast\.decode:round-trip'),
    Mutant('mmse-regulariser-sign', MI, 'MimoBase._calcMMSEFilter', [('replace', '+ noise_var * np.eye(Nt)', '- noise_var * np.eye(Nt)')],
           r'C04\.d:MimoBase\._calcMMSEFilter'),
    Mutant('mmse-gram-of-H-H_H', MI, 'MimoBase._calcMMSEFilter', [('replace', 'np.dot(H_H, H)', 'np.dot(H, H_H)')], r'C04\.[ad]:MimoBase\._calcMMSEFilter'),
    Mutant('blast-filter-mmse-without-noise', MI, 'Blast._calc_receive_filter', [('replace', 'if noise_var > 0:', 'if noise_var >= 0:')],
           r'C04\.d:Blast\._calc_receive_filter:filter-selection'),
    Mutant('gmd-precoder-skips-P', MI, 'GMDMimo._calc_precoder', [('replace', 'W = P / math.sqrt(Nt)', 'W = V_H.conj().T / math.sqrt(Nt)')],
           r'C04\.d:GMDMimo\.decode:round-trip'),
    Mutant('benign-adjoint-of-product', MI, 'SVDMimo._calc_receive_filter',
           [('replace', 'np.diag(1.0 / S).dot(U.conj().T)', 'U.dot(np.diag(1.0 / S)).conj().T')], None, benign=True),
    Mutant('benign-solve-as-inverse', MI, 'MimoBase._calcMMSEFilter',
           [('replace', 'np.linalg.solve(np.dot(H_H, H) + noise_var * np.eye(Nt), H_H)', 'np.linalg.inv(np.dot(H_H, H) + noise_var * np.eye(Nt)).dot(H_H)')],
           None, benign=True),
    Mutant('benign-matmul-operator', MI, 'MimoBase._calcMMSEFilter', [('replace', 'np.dot(H_H, H)', 'H_H @ H')], None, benign=True),
    Mutant('benign-svd-decode-minus-one', MI, 'SVDMimo.decode', [('replace', 'decoded_data.reshape(decoded_data.size)', 'decoded_data.reshape(-1)')],
           None, benign=True),
]

ENGINES = ['model', 'shapes', 'matterms']
TECHNIQUE = 'static analysis: abstract interpretation over symbolic array shapes (conformability for all Nr >= Nt), reshape-order pairing, matrix-term normal forms (non-commutative rewriting under SVD/GMD/pinv contracts)'
