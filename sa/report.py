"""Reporting: rule instances, obligations, violations, known findings, evidence, replay files."""
from __future__ import annotations

import json
import os
import re
import time
from typing import Any, Dict, List, Optional

from .model import Model
from .overlay import AnalysisError, Overlay

VERIF = os.path.dirname(os.path.dirname(os.path.abspath(__file__)))
KNOWN_FILE = os.path.join(VERIF, 'known_findings.json')
EVIDENCE_DIR = os.path.join(VERIF, 'evidence')


class Violation:
    def __init__(self, rule: str, key: str, msg: str, path: str = '', line: int = 0,
                 witness: Optional[Any] = None):
        self.rule, self.key, self.msg, self.path, self.line = rule, key, msg, path, line
        self.witness = witness

    def to_json(self) -> Dict[str, Any]:
        return {'rule': self.rule, 'key': self.key, 'what': self.msg,
                'file': self.path, 'line': self.line, 'witness': self.witness}


class Ctx:
    """One run of one property's rules over one overlay."""

    def __init__(self, prop_id: str, overlay: Overlay, tier: str = 'quick', seed: int = 0,
                 model: Optional[Model] = None, only_key: Optional[str] = None):
        self.prop_id = prop_id
        self.overlay = overlay
        self.tier = tier
        self.seed = seed
        self.model = model if model is not None else Model(overlay)
        fl = getattr(self.model, 'flat', None)
        self._flat_stats = None
        if fl is not None and (fl.inlined or fl.left or getattr(fl, 'renames', None) or getattr(fl, 'gathers', 0) or getattr(fl, 'constants', None) or getattr(fl, 'local_renames', 0)):
            self._flat_stats = {'spliced_call_sites': dict(sorted(fl.inlined.items())),
                                'left_as_calls': {k: sorted(set(v)) for k, v in sorted(fl.left.items())},
                                'no_longer_referenced': sorted(getattr(fl, 'dead', [])),
                                'private_attributes_mapped_back_to_reference_names': dict(getattr(fl, 'renames', {}) or {}),
                                'functions_with_gather_spellings_normalised': getattr(fl, 'gathers', 0),
                                'in_place_ufunc_statements_normalised': getattr(fl, 'out_ufuncs', 0),
                                'post_reference_constants_substituted': dict(getattr(fl, 'constants', {}) or {}),
                                'functions_with_locals_renamed_back_to_reference_names': getattr(fl, 'local_renames', 0)}
        self.only_key = only_key
        self.instances: Dict[str, List[str]] = {}
        self.floors: Dict[str, int] = {}
        self.n_obligations = 0
        self.n_discharged = 0
        self.nontrivial: set = set()
        self.samples: List[Any] = []
        self.violations: List[Violation] = []
        self.notes: List[str] = []
        self.rules: Dict[str, str] = {}
        self.assumptions: List[str] = []
        self.stats: Dict[str, Any] = {}
        if getattr(self, '_flat_stats', None):
            self.stats['post_reference_helpers'] = self._flat_stats
        self.consulted: set = set()

    # ---------------------------------------------------------------- recording
    def rule(self, rule: str, text: str, floor: int = 1) -> None:
        """Declare a rule, what it decides, and its anti-vacuity floor."""
        self.rules[rule] = text
        self.floors[rule] = floor
        self.instances.setdefault(rule, [])

    def instance(self, rule: str, construct: str) -> None:
        self.instances.setdefault(rule, []).append(construct)

    def obligation(self, rule: str, construct: str, ok: bool, detail: Any = None,
                   nontrivial: bool = True) -> None:
        self.n_obligations += 1
        if ok:
            self.n_discharged += 1
        if nontrivial:
            self.nontrivial.add((rule, construct))
        if detail is not None and len(self.samples) < 12 and (nontrivial or not self.samples):
            self.samples.append({'rule': rule, 'construct': construct, 'holds': ok, 'detail': detail})

    def violation(self, rule: str, construct: str, msg: str, path: str = '', line: int = 0,
                  witness: Any = None, operand: str = '') -> None:
        key = '%s:%s' % (rule, construct) + (':%s' % operand if operand else '')
        if any(v.key == key for v in self.violations):
            return
        from .inline import real_line
        self.violations.append(Violation(rule, key, msg, path, real_line(line), witness))

    def note(self, text: str) -> None:
        if text not in self.notes:
            self.notes.append(text)

    def assume(self, text: str) -> None:
        if text not in self.assumptions:
            self.assumptions.append(text)

    def error(self, msg: str) -> None:
        raise AnalysisError(msg)

    def check_floors(self) -> None:
        for rule, floor in self.floors.items():
            n = len(self.instances.get(rule, []))
            if n < floor:
                raise AnalysisError('rule %s matched %d instance(s), below its confirmed floor of %d '
                                    '(vacuous pass refused)' % (rule, n, floor))

    def keys(self) -> List[str]:
        return [v.key for v in self.violations]


# -------------------------------------------------------------------------------------------
def load_known() -> List[Dict[str, Any]]:
    if not os.path.exists(KNOWN_FILE):
        return []
    with open(KNOWN_FILE) as fh:
        data = json.load(fh)
    return data.get('findings', [])


def split_known(prop_id: str, violations: List[Violation]):
    known = {e['key']: e for e in load_known()
             if e.get('property') == prop_id and e.get('status') == 'known'}
    new, kn = [], []
    for v in violations:
        (kn if v.key in known else new).append(v)
    return new, kn, known


def safe_name(key: str) -> str:
    return re.sub(r'[^A-Za-z0-9_.@-]+', '_', key)[:150]


def write_replay(prop_id: str, v: Violation, overlay: Overlay) -> str:
    d = os.path.join(EVIDENCE_DIR, 'replay', prop_id)
    os.makedirs(d, exist_ok=True)
    p = os.path.join(d, safe_name(v.key) + '.json')
    with open(p, 'w') as fh:
        json.dump({'property': prop_id, 'key': v.key, 'rule': v.rule, 'what': v.msg,
                   'file': v.path, 'line': v.line, 'witness': v.witness,
                   'overlay': overlay.label,
                   'replay_cmd': './check %s --replay %s' % (prop_id, p)}, fh, indent=1, default=str)
    return p


def write_evidence(ctx: Ctx, wall_s: float, new: List[Violation], known: List[Violation],
                   extra: Optional[Dict[str, Any]] = None, explanation: str = '') -> str:
    os.makedirs(EVIDENCE_DIR, exist_ok=True)
    inst_counts = {r: len(v) for r, v in ctx.instances.items()}
    cov: Dict[str, Any] = {
        'explanation': explanation,
        'rules': ctx.rules,
        'rule_instances': inst_counts,
        'rule_instance_floors': ctx.floors,
        'instances': {r: v[:40] for r, v in ctx.instances.items()},
        'obligations': ctx.n_obligations,
        'discharged': ctx.n_discharged,
        'evaluations': max(ctx.n_obligations, 1),
        'distinct_nontrivial': len(ctx.nontrivial),
        'rule': 'one evaluation per (rule, construct[, operand]) obligation; an obligation is non-trivial when '
                'the construct contains at least one store/call/branch relevant to the rule; distinct by '
                '(rule, construct)',
        'samples': ctx.samples[:12] or [{'note': 'no obligations'}],
        'modules_parsed': len(ctx.model.modules),
        'classes_modelled': len(ctx.model.classes),
        'source_digest': ctx.overlay.digest(),
        'violations_unlisted': [v.to_json() for v in new],
        'known_findings': [v.to_json() for v in known],
        'notes': ctx.notes,
        'exhaustive': False,
    }
    cov.update(ctx.stats)
    if extra:
        cov.update(extra)
    ev = {
        'property_id': ctx.prop_id,
        'tier': ctx.tier,
        'seed': ctx.seed,
        'level': 'other',
        'coverage': cov,
        'assumptions': ctx.assumptions,
        'wall_s': round(wall_s, 3),
        'violations': len(new),
    }
    p = os.path.join(EVIDENCE_DIR, ctx.prop_id + '.json')
    tmp = p + '.tmp'
    with open(tmp, 'w') as fh:
        json.dump(ev, fh, indent=1, default=str)
    os.replace(tmp, p)
    return p
